SPECIFICATION Spec
CONSTANTS
  MaxSeq = 4
  LastWindow = TRUE
INVARIANT EveryWindowScored
INVARIANT InBounds
PROPERTY Terminates
CHECK_DEADLOCK FALSE

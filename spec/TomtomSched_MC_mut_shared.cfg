SPECIFICATION Spec
CONSTANTS
  NQ = 3
  NT = 2
  Lens <- L312
  Zero <- Z0
  OwnScratch = FALSE
  ResetA = TRUE
  InitResults = TRUE
INVARIANT NoStaleRead
INVARIANT NoSharing
PROPERTY AllDone
CHECK_DEADLOCK FALSE

--------------------------- MODULE DeepLift_Oracle ---------------------------
(* M3 lane of C04 / C05: evaluates DeepLiftOps!Eval for every case of IOEnv.CASES, asserts SumToDelta at every layer of
   every (example, reference) pair (the completeness theorem of the specified rule), and writes the exact values. *)
EXTENDS DeepLiftOps, Json, IOUtils
Cases == ndJsonDeserialize(IOEnv.CASES)
Results == [i \in 1..Len(Cases) |-> Eval(Cases[i])]
ASSUME /\ \A i \in 1..Len(Cases) : \A r \in 1..Len(Results[i].per) : Results[i].per[r].ok
       /\ ndJsonSerialize(IOEnv.OUT, Results)
VARIABLE dummy
Init == dummy = 0
Next == UNCHANGED dummy
Spec == Init /\ [][Next]_dummy
=============================================================================

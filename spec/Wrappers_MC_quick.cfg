SPECIFICATION Spec
CONSTANTS
  LenX = 6
  MaxN = 3
INVARIANT AnnotationAxis
INVARIANT ProductSeparates
INVARIANT MargShape
CHECK_DEADLOCK FALSE

----------------------------- MODULE WrappersOps -----------------------------
(* C08: what every output index of the perturbation wrappers denotes.
   The model is the PosCoded fingerprint F of ISMOps (exact integers; separates sequences, positions and arguments).
   A model has 1-3 outputs ("tensor": T values; "tuple": T and 4 (a 2x2 block, flattened); "triple": T, 4 and 3);
   output o of F on (sequence x, combined argument a) is Vec(x, a, o).  Extra model arguments are one integer per row;
   two arguments a0, a1 reach the model separately and are combined as a0 + 100 * a1.
   A result is a tuple over outputs of nested tuples whose innermost level is the output's value vector.          *)
EXTENDS ErsatzOps, ISMOps

NOut(out) == CASE out = "tensor" -> 1 [] out = "tuple" -> 2 [] out = "triple" -> 3
TOf(c, o) == CASE o = 1 -> c.T [] o = 2 -> 4 [] o = 3 -> 3
OffOf(o) == CASE o = 1 -> 0 [] o = 2 -> 7 [] o = 3 -> 20
Vec(c, x, a, o) == [t \in 1..TOf(c, o) |-> F(x, a, t - 1 + OffOf(o))]
Outs(c) == 1..NOut(c.out)
\* combined per-example argument of example i (0 when the call passes no args)
ArgI(c, i) == (IF c.args0 = <<>> THEN 0 ELSE c.args0[i]) + (IF c.args1 = <<>> THEN 0 ELSE 100 * c.args1[i])
Nx(c) == Len(c.x)

\* a region [s, e) of y is a permutation of the same region of x and everything else is identical (cf. C02)
RECURSIVE CountSym(_, _, _, _)
CountSym(x, v, lo, hi) == IF lo > hi THEN 0 ELSE (IF x[lo] = v THEN 1 ELSE 0) + CountSym(x, v, lo + 1, hi)
IsShuffleOf(y, x, s, e) ==
    /\ Len(y) = Len(x)
    /\ \A q \in 1..Len(x) : (q <= s \/ q > e) => y[q] = x[q]
    /\ \A v \in 0..5 : CountSym(y, v, s + 1, e) = CountSym(x, v, s + 1, e)

\* ---- marginalize: before = func(x_i, args_i), after = func(substitute(x_i, motif, start), args_i)
MargBefore(c) == [o \in Outs(c) |-> [i \in 1..Nx(c) |-> Vec(c, c.x[i], ArgI(c, i), o)]]
MargAfter(c) ==
    LET p == SubStart(c.x, c.mo, c.start) IN
    [o \in Outs(c) |-> [i \in 1..Nx(c) |-> Vec(c, Sub1(c.x[i], MotifFor(c.mo, i), p), ArgI(c, i), o)]]

\* ---- ablate: after[i][j] = func(shuffle j of example i, args_i); the shuffles are a logged fact (c.shuf[i][j]),
\*      which must itself be a shuffle of the region
AblAfter(c) == [o \in Outs(c) |-> [i \in 1..Nx(c) |-> [j \in 1..c.n |-> Vec(c, c.shuf[i][j], ArgI(c, i), o)]]]
ShufOK(c) == /\ Len(c.shuf) = Nx(c)
             /\ \A i \in 1..Nx(c) : Len(c.shuf[i]) = c.n /\ \A j \in 1..c.n : IsShuffleOf(c.shuf[i][j], c.x[i], c.start, c.end)

\* ---- space: [i][s] |-> multisubstitute(x_i, motifs, spacing row s)
SpaceBefore(c) == [o \in Outs(c) |-> [i \in 1..Nx(c) |-> [s \in 1..Len(c.grid) |-> Vec(c, c.x[i], ArgI(c, i), o)]]]
SpaceAfter(c) ==
    [o \in Outs(c) |-> [i \in 1..Nx(c) |-> [s \in 1..Len(c.grid) |->
        LET r == ExpMulti(<<c.x[i]>>, c.mos, c.grid[s], c.start) IN Vec(c, r.y[1], ArgI(c, i), o)]]]
SpaceFits(c) == \A i \in 1..Nx(c), s \in 1..Len(c.grid) : ExpMulti(<<c.x[i]>>, c.mos, c.grid[s], c.start).zone = "accept"

\* ---- marginalize_annotations: row a |-> the span of annotation a (taken from c.x) substituted into every background x0_i
AnnSeq(c, a) == SubSeq(c.x[c.ann[a][1] + 1], c.ann[a][2] + 1, c.ann[a][3])
MAnnBefore(c) == [o \in Outs(c) |-> [a \in 1..Len(c.ann) |-> [i \in 1..Len(c.x0) |-> Vec(c, c.x0[i], ArgI(c, i), o)]]]
MAnnAfter(c) ==
    [o \in Outs(c) |-> [a \in 1..Len(c.ann) |-> [i \in 1..Len(c.x0) |->
        LET m == AnnSeq(c, a) p == Len(c.x0[i]) \div 2 - Len(m) \div 2 IN Vec(c, Sub1(c.x0[i], m, p), ArgI(c, i), o)]]]

\* ---- ablate_annotations: row a |-> example idx_a with annotation a's span shuffled (logged fact c.shuf[a][j])
AAnnBefore(c) == [o \in Outs(c) |-> [a \in 1..Len(c.ann) |-> << Vec(c, c.x[c.ann[a][1] + 1], 0, o) >>]]
AAnnAfter(c) == [o \in Outs(c) |-> [a \in 1..Len(c.ann) |-> << [j \in 1..c.n |-> Vec(c, c.shuf[a][j], 0, o)] >>]]
AShufOK(c) == /\ Len(c.shuf) = Len(c.ann)
              /\ \A a \in 1..Len(c.ann) : Len(c.shuf[a]) = c.n /\
                    \A j \in 1..c.n : IsShuffleOf(c.shuf[a][j], c.x[c.ann[a][1] + 1], c.ann[a][2], c.ann[a][3])

\* ---- apply_pairwise: [i][j] |-> (x_i, row j of every arg);  apply_product: [i][j][k] |-> (x_i, args0_j, args1_k)
Pairwise(c) == [o \in Outs(c) |-> [i \in 1..Nx(c) |-> [j \in 1..Len(c.args0) |->
                    Vec(c, c.x[i], c.args0[j] + (IF c.args1 = <<>> THEN 0 ELSE 100 * c.args1[j]), o)]]]
Product(c) ==
    IF c.args1 = <<>>
    THEN [o \in Outs(c) |-> [i \in 1..Nx(c) |-> [j \in 1..Len(c.args0) |-> Vec(c, c.x[i], c.args0[j], o)]]]
    ELSE [o \in Outs(c) |-> [i \in 1..Nx(c) |-> [j \in 1..Len(c.args0) |-> [k \in 1..Len(c.args1) |->
                    Vec(c, c.x[i], c.args0[j] + 100 * c.args1[k], o)]]]]

Res(zone, before, after) == [zone |-> zone, before |-> before, after |-> after]
\* c = [op, x, x0, args0, args1, mo, mos, start, end, n, grid, ann, shuf, out, T, bs]
Expected(c) ==
    CASE c.op = "marginalize" -> Res("accept", MargBefore(c), MargAfter(c))
      [] c.op = "ablate" -> IF ShufOK(c) THEN Res("accept", MargBefore(c), AblAfter(c)) ELSE Res("badfact", <<>>, <<>>)
      [] c.op = "space" -> IF SpaceFits(c) THEN Res("accept", SpaceBefore(c), SpaceAfter(c)) ELSE Res("either", <<>>, <<>>)
      [] c.op = "marginalize_annotations" -> Res("accept", MAnnBefore(c), MAnnAfter(c))
      [] c.op = "ablate_annotations" -> IF AShufOK(c) THEN Res("accept", AAnnBefore(c), AAnnAfter(c)) ELSE Res("badfact", <<>>, <<>>)
      [] c.op = "apply_pairwise" -> Res("accept", <<>>, Pairwise(c))
      [] c.op = "apply_product" -> Res("accept", <<>>, Product(c))
=============================================================================

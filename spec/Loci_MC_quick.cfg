SPECIFICATION Spec
CONSTANTS
  CL = 12
  MaxWin = 5
INVARIANT InterleaveOK
INVARIANT IdxOrderIsRoundRobin
INVARIANT WindowsInside
INVARIANT WindowLength
CHECK_DEADLOCK FALSE

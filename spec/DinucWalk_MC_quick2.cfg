SPECIFICATION Spec
CONSTANTS
  A = 3
  MinL = 1
  MaxL = 4
  NShuf = 2
  KeepLast = TRUE
INVARIANT NeverStranded
INVARIANT EveryWalkOK
INVARIANT AllConsumed
PROPERTY Terminates
CHECK_DEADLOCK FALSE

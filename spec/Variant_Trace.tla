---------------------------- MODULE Variant_Trace ----------------------------
(* C10 trace validation: the tensors that reached func (captured with an identity model) against VariantOps. *)
EXTENDS VariantOps, Json, IOUtils
Trace == ndJsonDeserialize(IOEnv.TRACE_FILE)
VARIABLES l, bad
Verdict(e) ==
    LET ex == Expected(e) IN
    IF ~e.same THEN "a caller's tensor was modified"
    ELSE IF ex.zone = "reject" /\ e.st # "err" THEN "a variant list that cannot be honoured did not raise"
    ELSE IF ex.zone = "accept" /\ e.st # "ok" THEN "raised on a variant list that can be honoured"
    ELSE IF ex.zone = "any" THEN ""
    ELSE IF e.st = "ok" /\ ~e.valid THEN "func received something that is not a one-hot batch"
    ELSE IF e.st = "ok" /\ e.before # ex.before THEN "'before' is not the reference trimmed to the same length from the same side"
    ELSE IF e.st = "ok" /\ e.after # ex.after /\ e.after # ex.after2 THEN "'after' is not the string-level edited sequence"
    ELSE ""
Init == l = 1 /\ bad = <<>>
Next == /\ l <= Len(Trace) /\ l' = l + 1
        /\ LET v == Verdict(Trace[l]) IN bad' = IF v = "" THEN bad ELSE Append(bad, <<Trace[l].id, v>>)
Spec == Init /\ [][Next]_<<l, bad>>
AtEnd == l = Len(Trace) + 1 => JsonSerialize(IOEnv.OUT_FILE, [consumed |-> l - 1, bad |-> bad])
=============================================================================

------------------------------- MODULE IndexMaps -------------------------------
(* C08 / C09 design model of the INDEX ARITHMETIC the wrappers rely on: a list is built in generation order, handed to func
   in that order, and the flat result is reshaped (row-major) into the documented axes.  Checked for every small shape:
     ISM     mutants are generated character-major (for c: for p), so reshape(n, A, P)[n][c][p] is mutant (c, p) of example n;
             the as-found tuple branch reshaped (n, P, A) and transposed -- ISMReshape = "posmajor" -- which denotes mutant
             ((p*A + c) div P, (p*A + c) mod P) instead (spec-level mutant)
     ablate  X_perturb (n, S, ...) is flattened to index i*S + j; args must be repeated so that flat index i*S + j carries
             example i's argument: repeat_interleave (ArgRepeat = "interleave") does, repeat (tiling, "tile") does not
     product itertools.product(X, args0, args1) enumerates (i, j, k) with k fastest; reshape(n, n0, n1)[i][j][k] is that triple *)
EXTENDS Integers, Sequences, FiniteSets, TLC
CONSTANTS MaxN, MaxA, MaxP, ISMReshape, ArgRepeat
VARIABLES n, a, p, pc
vars == <<n, a, p, pc>>
Init == n \in 1..MaxN /\ a \in 1..MaxA /\ p \in 1..MaxP /\ pc = "check"
Next == pc = "check" /\ pc' = "done" /\ UNCHANGED <<n, a, p>>
Spec == Init /\ [][Next]_vars
\* generation order of the mutants of one example: position in the list (0-based) of mutant (c, q)
GenIndex(c, q) == c * p + q
\* row-major reshape of a flat list of length a*p into (a, p): entry [c][q] comes from flat index c*p + q
ISMEntry(c, q) == IF ISMReshape = "charmajor" THEN c * p + q ELSE q * a + c      \* "posmajor": reshape (p, a) then transpose
ISMIndexOK == \A c \in 0..(a - 1), q \in 0..(p - 1) : ISMEntry(c, q) = GenIndex(c, q)
\* ablate: flat index of (example i, shuffle j) with S = p shuffles; which example's argument sits at that flat index
FlatIS(i, j) == i * p + j
ArgAt(f) == IF ArgRepeat = "interleave" THEN f \div p ELSE f % n
AblateArgsOK == \A i \in 0..(n - 1), j \in 0..(p - 1) : ArgAt(FlatIS(i, j)) = i
\* product: (i, j, k) with sizes (n, a, p), k fastest; reshape(n, a, p)[i][j][k] reads flat index (i*a + j)*p + k
ProductOK == \A i \in 0..(n - 1), j \in 0..(a - 1), k \in 0..(p - 1) :
    LET flat == (i * a + j) * p + k IN flat \div (a * p) = i /\ (flat \div p) % a = j /\ flat % p = k
=============================================================================

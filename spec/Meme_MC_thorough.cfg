SPECIFICATION Spec
CONSTANTS
  MaxMotifs = 3
  MaxW = 2
  CommitAtRowEnd = TRUE
INVARIANT AllMotifs
INVARIANT PrefixAlways
PROPERTY ParseEnds
CHECK_DEADLOCK FALSE

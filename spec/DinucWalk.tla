------------------------------ MODULE DinucWalk ------------------------------
(* C02: the Euler walk of ersatz._fast_shuffle, one action per step of the code.
   s      the symbols of the region (tuple over 0..A-1)
   succ   succ[c] = successor positions (1-based index into s of the NEXT position) of every occurrence of c in
          s[1..L-1]; permuted IN PLACE before every shuffle, so permutations compose across shuffles as in the code
   cnt    cnt[c] = successors of c consumed by the current walk
   idx    current position; out = the shuffled sequence built so far
   hist   the permutations chosen so far (history: lets every behaviour be replayed into the real function)
   The only freedom numpy.random.permutation(n-1) has is modelled exactly: any permutation of the first n-1
   successors, THE LAST ONE STAYS LAST (KeepLast).  With KeepLast = FALSE (all n permuted) TLC finds a stranded walk. *)
EXTENDS Naturals, Integers, Sequences, FiniteSets, TLC
CONSTANTS A, MinL, MaxL, NShuf, KeepLast
VARIABLES pc, s, succ, c, cnt, idx, out, k, hist, outs
vars == <<pc, s, succ, c, cnt, idx, out, k, hist, outs>>

Chars == 0..(A - 1)
Seqs == UNION { [1..l -> Chars] : l \in MinL..MaxL }
Occ(ss, ch) == SelectSeq([i \in 1..(Len(ss) - 1) |-> i], LAMBDA i : ss[i] = ch)
InitSucc(ss) == [ch \in Chars |-> LET o == Occ(ss, ch) IN [j \in 1..Len(o) |-> o[j] + 1]]
Allowed(n) == IF n = 0 THEN { <<>> }
              ELSE IF KeepLast THEN { [j \in 1..n |-> IF j = n THEN n ELSE q[j]] : q \in Permutations(1..(n - 1)) }
              ELSE Permutations(1..n)

Init == /\ s \in Seqs /\ pc = "permute" /\ c = 0 /\ k = 1
        /\ succ = InitSucc(s) /\ cnt = [ch \in Chars |-> 0]
        /\ idx = 1 /\ out = <<s[1]>> /\ hist = <<>> /\ outs = <<>>

Permute == /\ pc = "permute" /\ c < A
           /\ \E p \in Allowed(Len(succ[c])) :
                 /\ succ' = [succ EXCEPT ![c] = [j \in 1..Len(succ[c]) |-> succ[c][p[j]]]]
                 /\ hist' = Append(hist, p)
           /\ c' = c + 1
           /\ UNCHANGED <<pc, s, cnt, idx, out, k, outs>>
StartWalk == /\ pc = "permute" /\ c = A /\ pc' = "walk"
             /\ UNCHANGED <<s, succ, c, cnt, idx, out, k, hist, outs>>
Stranded == pc = "walk" /\ Len(out) < Len(s) /\ cnt[s[idx]] >= Len(succ[s[idx]])
Walk == /\ pc = "walk" /\ Len(out) < Len(s)
        /\ LET ch == s[idx] IN
             /\ cnt[ch] < Len(succ[ch])
             /\ idx' = succ[ch][cnt[ch] + 1]
             /\ cnt' = [cnt EXCEPT ![ch] = @ + 1]
             /\ out' = Append(out, s[succ[ch][cnt[ch] + 1]])
        /\ UNCHANGED <<pc, s, succ, c, k, hist, outs>>
Finish == /\ pc = "walk" /\ Len(out) = Len(s)
          /\ outs' = Append(outs, out)
          /\ IF k < NShuf
             THEN /\ k' = k + 1 /\ pc' = "permute" /\ c' = 0 /\ cnt' = [ch \in Chars |-> 0] /\ idx' = 1 /\ out' = <<s[1]>>
             ELSE /\ pc' = "done" /\ UNCHANGED <<k, c, cnt, idx, out>>
          /\ UNCHANGED <<s, succ, hist>>
Next == Permute \/ StartWalk \/ Walk \/ Finish
Spec == Init /\ [][Next]_vars /\ WF_vars(Next)

\* ---------------------------------------------------------------- properties
Dinucs(ss) == [ab \in Chars \X Chars |-> Cardinality({ i \in 1..(Len(ss) - 1) : ss[i] = ab[1] /\ ss[i + 1] = ab[2] })]
NeverStranded == ~Stranded
WalkOK(o) == /\ Len(o) = Len(s) /\ Dinucs(o) = Dinucs(s) /\ o[1] = s[1] /\ o[Len(s)] = s[Len(s)]
EveryWalkOK == \A j \in 1..Len(outs) : WalkOK(outs[j])
\* whenever a walk completes it has consumed every transition of the original sequence
AllConsumed == (pc = "walk" /\ Len(out) = Len(s)) => \A ch \in Chars : cnt[ch] = Len(succ[ch])
Terminates == <>(pc = "done")
=============================================================================

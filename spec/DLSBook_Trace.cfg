SPECIFICATION TraceSpec
CONSTANTS
  MaxN = 0
  MaxS = 0
  MaxB = 0
INVARIANT AtEnd
INVARIANT TBlockOK
INVARIANT TDoneOK
CHECK_DEADLOCK FALSE

SPECIFICATION Spec
CONSTANTS
  Alpha = 3
  MaxL = 4
INVARIANT SelfMutant
INVARIANT Centred
INVARIANT Shape
CHECK_DEADLOCK FALSE

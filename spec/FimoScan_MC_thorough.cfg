SPECIFICATION Spec
CONSTANTS
  MaxSeq = 5
  TwoThr = TRUE
  WithN = TRUE
INVARIANT MirrorLaw
INVARIANT EveryWindow
INVARIANT FieldsOK
INVARIANT DPAgrees
CHECK_DEADLOCK FALSE

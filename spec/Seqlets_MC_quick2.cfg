SPECIFICATION Spec
CONSTANTS
  MaxLen = 6
  Vals <- V2
  Window = 3
  Flank = 0
  Supp = 1
INVARIANT FarApart
INVARIANT OnlyCandidates
INVARIANT SpanLength
PROPERTY Progress
PROPERTY Terminates
CHECK_DEADLOCK FALSE

----------------------------- MODULE CountingOps -----------------------------
(* C18: annotation counting and k-mer counting as pure cardinalities.
   A table is a tuple of rows <<example, annotation, start, end>> (0-based indices, end exclusive).
   All results are 1-based tuples so that they print and serialise as sequences:
   entry [e+1][a+1] stands for the API's (e, a).                                           *)
EXTENDS Integers, Sequences, FiniteSets, FiniteSetsExt, TLC

MaxOf(S) == CHOOSE m \in S : \A k \in S : k <= m
NEx(rows) == MaxOf({ rows[i][1] : i \in DOMAIN rows }) + 1
NAnn(rows) == MaxOf({ rows[i][2] : i \in DOMAIN rows }) + 1

\* ---- count_annotations: entry (e, a) = number of rows with that example and annotation
Count(rows, E, N) ==
    [e \in 1..E |-> [a \in 1..N |-> Cardinality({ i \in DOMAIN rows : rows[i][1] = e - 1 /\ rows[i][2] = a - 1 })]]
CountDim0(rows, N) == [a \in 1..N |-> Cardinality({ i \in DOMAIN rows : rows[i][2] = a - 1 })]      \* column sums
CountDim1(rows, E) == [e \in 1..E |-> Cardinality({ i \in DOMAIN rows : rows[i][1] = e - 1 })]      \* row sums

\* ---- pairs of rows of one example, earlier row first
RowPairs(rows) == { p \in (DOMAIN rows) \X (DOMAIN rows) : p[1] < p[2] /\ rows[p[1]][1] = rows[p[2]][1] }

\* pairwise_annotations: unordered pairs with annotations {a, b}; symmetric, diagonal counted once.
\* symmetric = FALSE: entry (a, b) counts pairs whose EARLIER ROW has annotation a and later row b.
Pairwise(rows, N, symmetric) ==
    LET P == RowPairs(rows) IN
    [a \in 1..N |-> [b \in 1..N |->
        Cardinality({ p \in P :
            \/ rows[p[1]][2] = a - 1 /\ rows[p[2]][2] = b - 1
            \/ symmetric /\ a # b /\ rows[p[1]][2] = b - 1 /\ rows[p[2]][2] = a - 1 })]]

\* pairwise_annotations_spacing: the left annotation is the one that starts first; gap = right.start - left.end.
\* Pairs with a negative gap (overlapping, nested, coincident) or gap >= D contribute nothing.
\* Coincident starts: the gap is negative whenever spans are non-empty, so which one is "left" does not matter.
LeftOf(rows, p) == IF rows[p[1]][3] < rows[p[2]][3] THEN p[1] ELSE p[2]
RightOf(rows, p) == IF rows[p[1]][3] < rows[p[2]][3] THEN p[2] ELSE p[1]
Gap(rows, p) == rows[RightOf(rows, p)][3] - rows[LeftOf(rows, p)][4]
Spacing(rows, N, D, symmetric) ==
    LET P == TLCEval({ p \in RowPairs(rows) : Gap(rows, p) >= 0 /\ Gap(rows, p) < D })
        \* qualifying pairs as <<left annotation, right annotation, gap>> per pair (pairs kept distinct by their row indices)
        T == TLCEval({ <<p, rows[LeftOf(rows, p)][2], rows[RightOf(rows, p)][2], Gap(rows, p)>> : p \in P })
        By(a, b) == TLCEval({ t \in T : \/ t[2] = a - 1 /\ t[3] = b - 1
                                        \/ symmetric /\ a # b /\ t[2] = b - 1 /\ t[3] = a - 1 })
    IN [a \in 1..N |-> [b \in 1..N |->
          LET S == By(a, b) IN
          IF S = {} THEN [d \in 1..D |-> 0]
          ELSE [d \in 1..D |-> Cardinality({ t \in S : t[4] = d - 1 })]]]

\* ---- kmers: the j-th k-mer is the one whose little-endian base-A code is j (first character least significant)
RECURSIVE Pow(_, _)
Pow(b, e) == IF e = 0 THEN 1 ELSE b * Pow(b, e - 1)
RECURSIVE CodeAt(_, _, _, _, _)
CodeAt(x, p, k, A, j) == IF j = k THEN 0 ELSE x[p + j] * Pow(A, j) + CodeAt(x, p, k, A, j + 1)
RECURSIVE SumRange(_, _, _)
SumRange(s, lo, hi) == IF lo > hi THEN 0 ELSE s[lo] + SumRange(s, lo + 1, hi)
Kmers(x, k, A) ==
    [j \in 1..Pow(A, k) |-> Cardinality({ p \in 1..(Len(x) - k + 1) : CodeAt(x, p, k, A, 0) = j - 1 })]
KmersScored(x, k, A, sc) ==
    [j \in 1..Pow(A, k) |->
        LET occ == { p \in 1..(Len(x) - k + 1) : CodeAt(x, p, k, A, 0) = j - 1 } IN
        FoldSet(LAMBDA p, acc : acc + SumRange(sc, p, p + k - 1), 0, occ)]

\* ---- what a call must return.  c = [op, rows, E, N, D, sym, x, k, A, sc]
\* E / N = 0 means "no explicit shape"; an explicit shape smaller than the observed indices must be rejected.
Expected(c) ==
    CASE c.op = "count" ->
            LET e0 == NEx(c.rows) n0 == NAnn(c.rows) IN
            IF c.E = 0 THEN [zone |-> "accept", y |-> Count(c.rows, e0, n0)]
            ELSE IF c.E < e0 \/ c.N < n0 THEN [zone |-> "reject", y |-> <<>>]
            ELSE [zone |-> "accept", y |-> Count(c.rows, c.E, c.N)]
      [] c.op = "count0" -> [zone |-> "accept", y |-> CountDim0(c.rows, IF c.N = 0 THEN NAnn(c.rows) ELSE c.N)]
      [] c.op = "count1" -> [zone |-> "accept", y |-> CountDim1(c.rows, IF c.E = 0 THEN NEx(c.rows) ELSE c.E)]
      [] c.op = "pairwise" ->
            IF c.N # 0 /\ c.N < NAnn(c.rows) THEN [zone |-> "reject", y |-> <<>>]
            ELSE [zone |-> "accept", y |-> Pairwise(c.rows, IF c.N = 0 THEN NAnn(c.rows) ELSE c.N, c.sym)]
      [] c.op = "spacing" ->
            IF c.N # 0 /\ c.N < NAnn(c.rows) THEN [zone |-> "reject", y |-> <<>>]
            ELSE [zone |-> "accept", y |-> Spacing(c.rows, IF c.N = 0 THEN NAnn(c.rows) ELSE c.N, c.D, c.sym)]
      [] c.op = "kmers" -> [zone |-> "accept", y |-> Kmers(c.x, c.k, c.A)]
      [] c.op = "kmers_scored" -> [zone |-> "accept", y |-> KmersScored(c.x, c.k, c.A, c.sc)]
=============================================================================

------------------------------ MODULE CodecOps ------------------------------
(* C15: sequence representations.
   Characters are integer codes; a string is a tuple of codes.  A one-hot tensor over an alphabet of size A is
   abstracted to a tuple of symbols 0..A-1, with -1 for an all-zero column.  NCode is the code of 'N'.        *)
EXTENDS Integers, Sequences, FiniteSets, TLC

NCode == 78

InSeq(v, s) == \E i \in DOMAIN s : s[i] = v
IndexOf(v, s) == CHOOSE i \in DOMAIN s : s[i] = v

\* ---- one_hot_encode: position i gets the index of str[i] in the alphabet, an all-zero column if it is ignored;
\*      a character in neither set, or an ignore set overlapping the alphabet, is rejected
EncodeOK(str, alphabet, ignore) ==
    /\ \A i \in DOMAIN ignore : ~InSeq(ignore[i], alphabet)
    /\ \A i \in DOMAIN str : InSeq(str[i], alphabet) \/ InSeq(str[i], ignore)
Encode(str, alphabet, ignore) ==
    [i \in 1..Len(str) |-> IF InSeq(str[i], alphabet) THEN IndexOf(str[i], alphabet) - 1 ELSE -1]

\* ---- characters(allow_N=True): symbol -> letter, all-zero column -> 'N'
Decode(x, alphabet) == [i \in 1..Len(x) |-> IF x[i] = -1 THEN NCode ELSE alphabet[x[i] + 1]]

\* ---- reverse complement.  comp[c+1] = symbol that complements symbol c (an involution)
Involution(comp) == \A i \in DOMAIN comp : comp[comp[i] + 1] = i - 1
RCSym(x, comp) == [i \in 1..Len(x) |-> LET v == x[Len(x) + 1 - i] IN IF v = -1 THEN -1 ELSE comp[v + 1]]
RCStr(str, alphabet, comp) ==      \* 'N' stays 'N' (allow_N)
    [i \in 1..Len(str) |-> LET ch == str[Len(str) + 1 - i] IN
        IF InSeq(ch, alphabet) THEN alphabet[comp[IndexOf(ch, alphabet)] + 1] ELSE NCode]

\* ---- chunk / unchunk on position-coded sequences
Step(size, ov) == size - ov
NChunks(L, size, ov) == (L - size) \div Step(size, ov) + 1          \* complete chunks only (L >= size)
Chunk1(x, size, ov) == [j \in 1..NChunks(Len(x), size, ov) |-> SubSeq(x, (j - 1) * Step(size, ov) + 1, (j - 1) * Step(size, ov) + size)]
RECURSIVE Concat(_, _)
Concat(ss, i) == IF i > Len(ss) THEN <<>> ELSE ss[i] \o Concat(ss, i + 1)
Chunk(xs, size, ov) == Concat([i \in 1..Len(xs) |-> Chunk1(xs[i], size, ov)], 1)
Covered(L, size, ov) == size + (NChunks(L, size, ov) - 1) * Step(size, ov)
\* unchunk must reproduce, for every sequence, every position covered by a complete chunk
Unchunk(xs, size, ov) == [i \in 1..Len(xs) |-> SubSeq(xs[i], 1, Covered(Len(xs[i]), size, ov))]

\* a call: [op, str, alphabet, ignore, x, comp, xs, size, ov]
Expected(c) ==
    CASE c.op = "encode" ->
            IF EncodeOK(c.str, c.alphabet, c.ignore) THEN [zone |-> "accept", y |-> Encode(c.str, c.alphabet, c.ignore)]
            ELSE [zone |-> "reject", y |-> <<>>]
      [] c.op = "roundtrip" ->            \* characters(one_hot_encode(s), allow_N): ignored characters come back as 'N'
            IF EncodeOK(c.str, c.alphabet, c.ignore)
            THEN [zone |-> "accept", y |-> Decode(Encode(c.str, c.alphabet, c.ignore), c.alphabet)]
            ELSE [zone |-> "reject", y |-> <<>>]
      [] c.op = "decode" -> [zone |-> "accept", y |-> Decode(c.x, c.alphabet)]
      [] c.op = "reencode" ->             \* one_hot_encode(characters(x, allow_N), ignore=['N']) = x
            [zone |-> "accept", y |-> c.x]
      [] c.op = "rc_tensor" -> [zone |-> "accept", y |-> RCSym(c.x, c.comp)]
      [] c.op = "rc_string" -> [zone |-> "accept", y |-> RCStr(c.str, c.alphabet, c.comp)]
      [] c.op = "chunk" -> [zone |-> "accept", y |-> Chunk(c.xs, c.size, c.ov)]
      [] c.op = "unchunk" -> [zone |-> "accept", y |-> Unchunk(c.xs, c.size, c.ov)]
      \* one long sequence (chromosome scale): the event carries the lengths only; y = <<number of chunks, positions returned,
      \* returned positions equal the input's (compared by the driver)>>; the sequence length is c.size2 (xs would not fit)
      [] c.op = "unchunk_long" -> [zone |-> "accept", y |-> <<NChunks(c.longlen, c.size, c.ov), Covered(c.longlen, c.size, c.ov), 1>>]
=============================================================================

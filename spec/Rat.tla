--------------------------------- MODULE Rat ---------------------------------
(* Exact rationals as normalised pairs <<numerator, denominator>> with denominator > 0 (TLC has only 32-bit integers:
   drivers size their cases so that no intermediate product overflows; TLC aborts on overflow, it never wraps). *)
EXTENDS Integers, Sequences, SequencesExt
RECURSIVE Gcd(_, _)
Gcd(a, b) == IF b = 0 THEN a ELSE Gcd(b, a % b)
IAbs(a) == IF a < 0 THEN -a ELSE a
Norm(n, d) == IF n = 0 THEN <<0, 1>> ELSE
              LET g == Gcd(IAbs(n), IAbs(d)) s == IF d < 0 THEN -1 ELSE 1 IN <<s * (n \div g), s * (d \div g)>>
RZero == <<0, 1>>
ROne == <<1, 1>>
RInt(i) == <<i, 1>>
\* sums go through the least common denominator and products cancel crosswise first, so that dyadic denominators such as
\* 2^-16 never produce an intermediate product beyond 32 bits
RAdd(p, q) == IF p[2] = 1 /\ q[2] = 1 THEN <<p[1] + q[1], 1>>
              ELSE LET g == Gcd(p[2], q[2]) IN Norm(p[1] * (q[2] \div g) + q[1] * (p[2] \div g), (p[2] \div g) * q[2])
RNeg(p) == <<-p[1], p[2]>>
RSub(p, q) == RAdd(p, RNeg(q))
RMul(p, q) == IF p[2] = 1 /\ q[2] = 1 THEN <<p[1] * q[1], 1>>
              ELSE IF p[1] = 0 \/ q[1] = 0 THEN <<0, 1>>
              ELSE LET g1 == Gcd(IAbs(p[1]), q[2]) g2 == Gcd(IAbs(q[1]), p[2]) IN
                   Norm((p[1] \div g1) * (q[1] \div g2), (p[2] \div g2) * (q[2] \div g1))
RInv(q) == IF q[1] < 0 THEN <<-q[2], -q[1]>> ELSE <<q[2], q[1]>>            \* q # 0
RDiv(p, q) == RMul(p, RInv(q))
RLt(p, q) == LET g == Gcd(p[2], q[2]) IN p[1] * (q[2] \div g) < q[1] * (p[2] \div g)
RMax(p, q) == IF RLt(p, q) THEN q ELSE p
RSum(seq) == FoldLeft(RAdd, RZero, seq)
=============================================================================

--------------------------- MODULE Batching_Trace ---------------------------
(* C03 trace validation: recorded predict calls are replayed through the ACTIONS of Batching.tla.
   Events (one per line):
     call     [n, b, argn]                            -> Enter . CheckArgs (. Clamp)
     forward  [rows, args, training, grad]            -> Batch, and the logged rows / arg ids must be the model's window
     return   [st, outs, same]                        -> Concat (or the rejected exit)
   A step the model cannot take is recorded in `bad` with its reason; validation resumes at the next call.      *)
EXTENDS Batching, Json, IOUtils
Trace == ndJsonDeserialize(IOEnv.TRACE_FILE)
VARIABLES l, bad, cid
tvars == <<vars, l, bad, cid>>
E == Trace[l]

\* the state after Enter . CheckArgs . Clamp, composed explicitly (a call event covers three model steps)
TraceCall == /\ E.ev = "call"
             /\ LET rej == \E k \in DOMAIN E.argn : E.argn[k] # E.n IN
                /\ n' = E.n /\ argn' = E.argn /\ start' = 0 /\ calls' = <<>> /\ res' = <<>> /\ mode' = "eval"
                /\ b' = IF rej THEN E.b ELSE Minimum(E.b, E.n)
                /\ grad' = IF rej THEN TRUE ELSE FALSE
                /\ pc' = IF rej THEN "rejected" ELSE "loop"
             /\ cid' = E.id /\ UNCHANGED bad
FwdReason == IF pc # "loop" THEN "the model was called outside the batching loop (e.g. after a rejected argument)"
             ELSE IF start >= n THEN "more forward calls than batches"
             ELSE IF E.training THEN "the model (or one of its sub-modules) ran in training mode"
             ELSE IF E.grad THEN "model ran with autograd enabled"
             ELSE IF E.rows # Rows(Window(start, b, n)) THEN "batch is not the next consecutive window of at most batch_size examples"
             ELSE IF \E k \in DOMAIN E.args : E.args[k] # E.rows THEN "an extra argument was sliced with a different window than X"
             ELSE IF ~E.argdtype_ok THEN "an extra argument reached the model with another dtype than the caller's (model(X[i], args[i]) is not what ran)"
             ELSE ""
TraceForward == /\ E.ev = "forward" /\ FwdReason = ""
                /\ mode' = mode /\ grad' = grad
                /\ Batch /\ UNCHANGED <<bad, cid>>
RetReason == IF ~E.same THEN "X or args were modified"
             ELSE IF pc = "rejected" THEN (IF E.st = "err" THEN "" ELSE "an args entry with a different leading dimension was accepted")
             ELSE IF pc # "loop" THEN "return without a call"
             ELSE IF start < n THEN "returned before every example was evaluated"
             ELSE IF E.st # "ok" THEN "raised on a valid call"
             ELSE IF \E o \in DOMAIN E.outs : E.outs[o] # Flatten(calls, 1) THEN "an output is not the in-order concatenation of the batches"
             ELSE IF Len(E.outs) # E.nout THEN "wrong number of outputs"
             ELSE IF E.container # E.want_container THEN "a model returning a tuple / list (even of one tensor) must get a list back, a tensor a tensor"
             ELSE ""
TraceReturn == /\ E.ev = "return" /\ RetReason = ""
               /\ IF pc = "rejected" THEN UNCHANGED vars ELSE Concat
               /\ UNCHANGED <<bad, cid>>
Reason == IF E.ev = "forward" THEN FwdReason ELSE IF E.ev = "return" THEN RetReason ELSE ""
\* total verdicts: record, then skip to the next call
TraceBad == /\ pc # "skip" /\ Reason # ""
            /\ bad' = Append(bad, <<cid, Reason>>) /\ pc' = "skip"
            /\ UNCHANGED <<n, b, argn, start, calls, mode, grad, res, cid>>
TraceSkip == /\ pc = "skip" /\ E.ev # "call" /\ UNCHANGED <<vars, bad, cid>>
TraceNext == /\ l <= Len(Trace) /\ l' = l + 1
             /\ (TraceCall \/ TraceForward \/ TraceReturn \/ TraceBad \/ TraceSkip)
TraceInit == Idle /\ mode = "train" /\ grad = TRUE /\ l = 1 /\ bad = <<>> /\ cid = 0
TraceSpec == TraceInit /\ [][TraceNext]_tvars
AtEnd == l = Len(Trace) + 1 => JsonSerialize(IOEnv.OUT_FILE, [consumed |-> l - 1, bad |-> bad])
\* the design invariants are evaluated at every step of every recorded execution
TWindowsOK == WindowsOK
TPartition == Partition
=============================================================================

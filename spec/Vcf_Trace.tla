------------------------------ MODULE Vcf_Trace ------------------------------
(* read_vcf (beyond the listed properties; lane "extras" of C16).  A VCF file is a sequence of lines:
       "meta"   starts with '#' (## meta-information and the #CHROM header): skipped
       "blank"  empty line: skipped
       "data"   tab-separated fields, at least 9; fields beyond the ninth (per-sample columns) are dropped
   read_vcf must return one row per data line, in file order, holding exactly its first nine fields (POS as an integer).
   Fields are abstracted to integer tokens by the driver (equal strings <-> equal tokens); a '#' INSIDE a field does not
   start a comment in VCF (it is legal in ID / INFO values) -- the driver marks such files with hash = TRUE.          *)
EXTENDS Integers, Sequences, FiniteSets, TLC, Json, IOUtils
Trace == ndJsonDeserialize(IOEnv.TRACE_FILE)
VARIABLES l, bad
RECURSIVE DataRows(_, _)
DataRows(lines, k) == IF k > Len(lines) THEN <<>>
                      ELSE (IF lines[k].k = "data" THEN << SubSeq(lines[k].f, 1, 9) >> ELSE <<>>) \o DataRows(lines, k + 1)
Verdict(e) ==
    LET want == DataRows(e.lines, 1) IN
    IF e.st # "ok" THEN (IF want = <<>> THEN "" ELSE "read_vcf raised on a well-formed file")      \* an empty table may be refused
    ELSE IF Len(e.rows) # Len(want) THEN "number of rows differs from the number of data lines"
    ELSE IF e.rows # want THEN (IF e.hash THEN "a '#' inside a field was treated as the start of a comment"
                                ELSE "a row does not hold the first nine fields of its data line, in file order")
    ELSE ""
Init == l = 1 /\ bad = <<>>
Next == /\ l <= Len(Trace) /\ l' = l + 1
        /\ LET v == Verdict(Trace[l]) IN bad' = IF v = "" THEN bad ELSE Append(bad, <<Trace[l].id, v>>)
Spec == Init /\ [][Next]_<<l, bad>>
AtEnd == l = Len(Trace) + 1 => JsonSerialize(IOEnv.OUT_FILE, [consumed |-> l - 1, bad |-> bad])
=============================================================================

SPECIFICATION Spec
CONSTANTS
  Len2 = 2
  WSet <- W3
  BSet <- B2
  VSet <- V2
  Acts <- ActsQ
INVARIANT SumToDeltaInv
INVARIANT AffineClosedForm
PROPERTY Terminates
CHECK_DEADLOCK FALSE

--------------------------- MODULE ModelLife_Trace ---------------------------
(* C07 trace validation.  One event per API call executed on a SHARED model (a new history starts with first = TRUE):
     [func, crash, out, hooks, sd_same, probe_same, res, res_fresh, out_fresh]
   The call is pushed through ModelLife's own actions: CallWith, then silent Step / Raise steps until the model exits,
   then the logged observation is compared with the model's exit state (ExitClean is what the model guarantees).   *)
EXTENDS ModelLifeMC, Json, IOUtils
Trace == ndJsonDeserialize(IOEnv.TRACE_FILE)
VARIABLES l, bad, phase
tvars == <<vars, l, bad, phase>>
E == Trace[l]
CP(e) == <<e.crash[1], e.crash[2], e.crash[3]>>

Start == /\ phase = "await" /\ l <= Len(Trace)
         /\ CallWith(E.func, CP(E)) /\ hist' = <<>>
         /\ phase' = "running" /\ UNCHANGED <<l, bad>>
Silent == /\ phase = "running" /\ pc = "run"
          /\ ((pc = "run" /\ Raise) \/ Step)
          /\ UNCHANGED <<l, bad, phase>>
Reason == IF CP(E) \notin CrashPoints(E.func) THEN "crash point unknown to the model"
          ELSE IF pc = "raised" /\ E.out # "raised" THEN "the injected failure did not surface as an exception"
          ELSE IF pc = "returned" /\ E.out # "returned" THEN "the call raised although nothing was injected"
          ELSE IF (E.hooks > 0) # hooks THEN "forward/backward hooks were left on the model"
          ELSE IF ~E.sd_same THEN "parameters or buffers changed"
          ELSE IF ~E.probe_same THEN "the model's outputs or ordinary gradients changed"
          ELSE IF ~E.fresh_probe_same THEN "a fresh copy no longer gives its outputs / ordinary gradients after the call"
          ELSE IF E.woke THEN "a sub-module that was in evaluation mode came back in training mode"
          ELSE IF E.res # E.res_fresh \/ E.out # E.out_fresh THEN "the shared model gives a different result than a fresh copy"
          ELSE ""
Exit == /\ phase = "running" /\ pc \in {"returned", "raised"}
        /\ bad' = IF Reason = "" THEN bad ELSE Append(bad, <<E.id, Reason>>)
        /\ l' = l + 1 /\ phase' = "await" /\ UNCHANGED vars
TraceNext == Start \/ Silent \/ Exit
TraceInit == Init /\ mode = "train" /\ l = 1 /\ bad = <<>> /\ phase = "await"
TraceSpec == TraceInit /\ [][TraceNext]_tvars
AtEnd == (l = Len(Trace) + 1 /\ phase = "await") => JsonSerialize(IOEnv.OUT_FILE, [consumed |-> l - 1, bad |-> bad])
\* the design invariant is evaluated at every step of every recorded execution
TExitClean == ExitClean
=============================================================================

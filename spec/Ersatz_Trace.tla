---------------------------- MODULE Ersatz_Trace ----------------------------
(* C01 trace validation: every recorded call of an ersatz primitive (arguments, outcome, decoded result,
   whether the caller's tensors still have their digests) is decided with the operators of ErsatzOps.
   Verdicts are total: a rejected event is recorded in `bad` and validation continues. *)
EXTENDS ErsatzOps, Json, IOUtils

Trace == ndJsonDeserialize(IOEnv.TRACE_FILE)
VARIABLES l, bad

Verdict(e) ==
    LET ex == ErsatzExpected(e) IN
    IF ~e.same THEN "a caller's tensor was modified"
    ELSE IF ex.zone = "reject" /\ e.st # "err" THEN "accepted a position/span that is not wholly inside the sequence (or a mis-sized motif batch)"
    ELSE IF ex.zone = "accept" /\ e.st # "ok" THEN "rejected a call whose span lies wholly inside the sequence"
    ELSE IF e.st = "ok" /\ ~e.valid THEN "output is not a valid one-hot encoding"
    ELSE IF e.st = "ok" /\ e.op # "randomize" /\ e.y # ex.y THEN "wrong result"
    ELSE IF e.st = "ok" /\ e.op = "randomize" /\ ~RandomizedOK(e.x, e.start, e.end, e.y)
         THEN "randomize changed a position outside [start,end) or returned a wrong shape"
    ELSE ""

Init == l = 1 /\ bad = <<>>
Next == /\ l <= Len(Trace) /\ l' = l + 1
        /\ LET v == Verdict(Trace[l]) IN bad' = IF v = "" THEN bad ELSE Append(bad, <<Trace[l].id, v>>)
Spec == Init /\ [][Next]_<<l, bad>>
AtEnd == l = Len(Trace) + 1 => JsonSerialize(IOEnv.OUT_FILE, [consumed |-> l - 1, bad |-> bad])
=============================================================================

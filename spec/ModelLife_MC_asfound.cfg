SPECIFICATION Spec
CONSTANTS
  NBatches = 2
  MaxCalls = 1
  Guarded <- AsFound
INVARIANT ExitClean
PROPERTY StartsClean
INVARIANT CrashHonoured
INVARIANT ParamsNeverChange
PROPERTY EveryCallEnds
CHECK_DEADLOCK FALSE

------------------------------ MODULE FimoTable ------------------------------
(* C11 design model: the score distribution of a motif built column by column (Convolve), then accumulated into the
   survival function (Accumulate).  Checked in every state: total mass 4^j, support inside [sum of minima, sum of maxima];
   at the end: Tail is 4^w at the lowest attainable score, non-increasing, 0 exactly above the highest attainable score, >= 1
   at it, and equal to the brute-force count over all 4^w sequences.                                                        *)
EXTENDS FimoOps
CONSTANTS MaxW, Lo, Hi
VARIABLES M, j, pmf, tail, pc
vars == <<M, j, pmf, tail, pc>>
ScoreRange == (MaxW * Lo - 1)..(MaxW * Hi + 1)
Unit == [s \in ScoreRange |-> IF s = 0 THEN 1 ELSE 0]
Init == /\ \E w \in 1..MaxW : M \in [1..4 -> [1..w -> Lo..Hi]]
        /\ j = 0 /\ pmf = Unit /\ tail = <<>> /\ pc = "conv"
Convolve == /\ pc = "conv" /\ j < W(M)
            /\ pmf' = Conv(M, j + 1, pmf, MaxW * Lo - 1, MaxW * Hi + 1) /\ j' = j + 1
            /\ UNCHANGED <<M, tail, pc>>
Accumulate == /\ pc = "conv" /\ j = W(M)
              /\ tail' = [b \in ScoreRange |-> TailFrom(pmf, b, MaxW * Hi + 1)] /\ pc' = "done"
              /\ UNCHANGED <<M, j, pmf>>
Next == Convolve \/ Accumulate
Spec == Init /\ [][Next]_vars /\ WF_vars(Next)
Mass == FoldSet(LAMBDA s, acc : acc + pmf[s], 0, ScoreRange) = Pow4(j)
Support == \A s \in ScoreRange : pmf[s] > 0 => /\ s >= SumCols(M, ColMin, j) /\ s <= SumCols(M, ColMax, j)
TailOK == pc = "done" =>
    /\ tail[MinScore(M)] = Pow4(W(M))                                   \* probability 1 at the lowest attainable score
    /\ \A b \in ScoreRange : b < MaxW * Hi + 1 => tail[b] >= tail[b + 1]     \* non-increasing
    /\ \A b \in ScoreRange : b > MaxScore(M) => tail[b] = 0                  \* zero exactly above the highest attainable score
    /\ tail[MaxScore(M)] >= 1
    /\ \A b \in ScoreRange : tail[b] = TailBF(M, b)                          \* = the definition by enumeration
Terminates == <>(pc = "done")
=============================================================================

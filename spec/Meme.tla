-------------------------------- MODULE Meme --------------------------------
(* C16 (read_meme): the parser as a line-kind state machine, one action per line read.
   A MEME file is a sequence of line kinds generated block by block from the grammar of valid layouts:
       <<"hdr">> <<"blank">>   then per motif:   [blank]* <<"motif", id>> [blank]? <<"letter", w>> <<"row">>^w [<<"url">>]? [blank]*
   (the driver renders each layout to a real file: LF / CRLF, trailing spaces, with / without final newline).
   What must come out: every motif block, in file order, with its width (and, in the driver, exactly its numbers).
   CommitAtRowEnd = TRUE  : a motif is committed when its last matrix row has been read (repaired code);
   CommitAtRowEnd = FALSE : it is committed by the line AFTER the matrix (as found): the last motif of a file that ends with
                            its matrix, and any motif directly followed by the next MOTIF line, is lost -- spec-level mutant. *)
EXTENDS Naturals, Sequences, SequencesExt, FiniteSets, TLC
CONSTANTS MaxMotifs, MaxW, CommitAtRowEnd
VARIABLES file, expect, pos, st, name, width, rows, out, build
vars == <<file, expect, pos, st, name, width, rows, out, build>>

Block(id, w, blanksBefore, gap, url, blanksAfter) ==
    [k \in 1..blanksBefore |-> <<"blank">>] \o << <<"motif", id>> >> \o [k \in 1..gap |-> <<"blank">>] \o << <<"letter", w>> >>
    \o [k \in 1..w |-> <<"row">>] \o (IF url THEN << <<"url">> >> ELSE <<>>) \o [k \in 1..blanksAfter |-> <<"blank">>]

Init == /\ file = << <<"hdr">>, <<"blank">> >> /\ expect = <<>> /\ build = TRUE
        /\ pos = 1 /\ st = "idle" /\ name = 0 /\ width = 0 /\ rows = 0 /\ out = <<>>
AddBlock == /\ build /\ Len(expect) < MaxMotifs
            /\ \E w \in 1..MaxW, bb \in 0..1, gap \in 0..1, url \in BOOLEAN, ba \in 0..1 :
                 /\ file' = file \o Block(Len(expect) + 1, w, bb, gap, url, ba)
                 /\ expect' = Append(expect, <<Len(expect) + 1, w>>)
            /\ UNCHANGED <<pos, st, name, width, rows, out, build>>
StartParse == /\ build /\ Len(expect) >= 1 /\ build' = FALSE
              /\ UNCHANGED <<file, expect, pos, st, name, width, rows, out>>
ReadLine == /\ ~build /\ pos <= Len(file)
            /\ LET ln == file[pos] IN
               CASE st = "idle" ->
                      IF ln[1] = "motif" THEN /\ st' = "named" /\ name' = ln[2] /\ UNCHANGED <<width, rows, out>>
                      ELSE UNCHANGED <<st, name, width, rows, out>>
                 [] st = "named" ->
                      IF ln[1] = "letter" THEN /\ st' = "rows" /\ width' = ln[2] /\ rows' = 0 /\ UNCHANGED <<name, out>>
                      ELSE UNCHANGED <<st, name, width, rows, out>>
                 [] st = "rows" /\ rows < width ->
                      /\ rows' = rows + 1
                      /\ IF CommitAtRowEnd /\ rows + 1 = width
                         THEN /\ out' = Append(out, <<name, width>>) /\ st' = "idle" /\ UNCHANGED <<name, width>>
                         ELSE UNCHANGED <<st, name, width, out>>
                 [] st = "rows" /\ rows = width ->      \* as-found only: the line after the matrix is consumed as the commit trigger
                      /\ out' = Append(out, <<name, width>>) /\ st' = "idle" /\ UNCHANGED <<name, width, rows>>
            /\ pos' = pos + 1 /\ UNCHANGED <<file, expect, build>>
Next == AddBlock \/ StartParse \/ ReadLine
Spec == Init /\ [][Next]_vars /\ WF_vars(ReadLine)
AtEOF == ~build /\ pos > Len(file)
AllMotifs == AtEOF => out = expect                 \* every motif of the file, in file order
PrefixAlways == ~build => IsPrefix(out, expect)
ParseEnds == (~build) ~> AtEOF
=============================================================================

--------------------------- MODULE Wrappers_Trace ---------------------------
(* C08 trace validation with WrappersOps. *)
EXTENDS WrappersOps, Json, IOUtils
Trace == ndJsonDeserialize(IOEnv.TRACE_FILE)
VARIABLES l, bad
\* wrappers around another func (deep_lift_shap, saturation_mutagenesis): every output index must equal the logged result of
\* calling func directly on the input that the index denotes (same seed and keyword arguments), in a SEQUENCE of calls
FuncVerdict(e) ==
    IF ~e.same THEN "a caller's tensor was modified"
    ELSE IF e.st # "ok" THEN "raised on a valid configuration"
    ELSE IF e.got[1] # e.fact[1] THEN "'before' is not func on the unmodified inputs at every index"
    ELSE IF e.got[2] # e.fact[2] THEN "an 'after' entry is not func on the input its index denotes"
    ELSE ""
Verdict0(e) ==
    LET ex == Expected(e) IN
    IF ~e.same THEN "a caller's tensor was modified"
    ELSE IF ex.zone = "badfact" THEN "the logged shuffles are not shuffles of the stated region"
    ELSE IF ex.zone = "either" THEN ""
    ELSE IF e.st # "ok" THEN "raised on a valid configuration"
    ELSE IF ~e.valid THEN "result has the wrong structure (number of outputs / shape) or non-integral values"
    ELSE IF ex.before # <<>> /\ e.before # ex.before THEN "'before' is not func on the unmodified inputs at every index"
    ELSE IF e.after # ex.after THEN "an 'after'/product entry is not func on the input its index denotes"
    ELSE ""
Verdict(e) == IF e.isfunc THEN FuncVerdict(e) ELSE Verdict0(e)
Init == l = 1 /\ bad = <<>>
Next == /\ l <= Len(Trace) /\ l' = l + 1
        /\ LET v == Verdict(Trace[l]) IN bad' = IF v = "" THEN bad ELSE Append(bad, <<Trace[l].id, v>>)
Spec == Init /\ [][Next]_<<l, bad>>
AtEnd == l = Len(Trace) + 1 => JsonSerialize(IOEnv.OUT_FILE, [consumed |-> l - 1, bad |-> bad])
=============================================================================

------------------------------- MODULE Variant -------------------------------
(* C10 design model: every variant list of the bounded scope with the sequences that must reach func. *)
EXTENDS VariantOps, FiniteSetsExt, SequencesExt
CONSTANTS MaxLen, MaxDel, Alpha

Pat(l, k) == [q \in 1..l |-> (k * (q + k)) % Alpha]          \* two different fixed contents: k = 1, 3
Batch(n, l) == IF n = 1 THEN <<Pat(l, 1)>> ELSE <<Pat(l, 1), Pat(l, 3)>>
Call(op, x, rows, left) == [op |-> op, x |-> x, rows |-> rows, left |-> left, A |-> Alpha]
Subsets(S, k) == {{}} \cup UNION { kSubset(j, S) : j \in 1..(IF Cardinality(S) < k THEN Cardinality(S) ELSE k) }
\* a deterministic listing of a set of rows (the implementation must not depend on the order; the driver also permutes)
ToRows(S) == SetToSeq(S)

VARIABLES pc, call, exp
vars == <<pc, call, exp>>

IsCall(c) ==
    \/ \E n \in 1..2, l \in 2..MaxLen, left \in BOOLEAN :
         \E d1 \in Subsets(0..(l - 1), MaxDel), d2 \in (IF n = 1 THEN {{}} ELSE Subsets(0..(l - 1), MaxDel)) :
            /\ Cardinality(d1) < l /\ Cardinality(d2) < l
            /\ c = Call("deletion", Batch(n, l), ToRows({ <<0, p>> : p \in d1 } \cup { <<1, p>> : p \in d2 }), left)
    \/ \E l \in 2..MaxLen, left \in BOOLEAN : \E bad \in {<<2, 0>>, <<0, l>>} :         \* cannot be honoured
            c = Call("deletion", Batch(2, l), <<bad>>, left)
    \/ \E l \in 3..MaxLen, left \in BOOLEAN :          \* a position named twice is still one deletion (merged variant tables)
         \E d1 \in Subsets(0..(l - 1), 2) \ {{}}, d2 \in Subsets(0..(l - 1), 1), dup \in 0..(l - 1) :
            /\ dup \in d1
            /\ c = Call("deletion", Batch(2, l), ToRows({ <<0, p>> : p \in d1 } \cup { <<1, p>> : p \in d2 }) \o << <<0, dup>> >>, left)
    \/ \E n \in 1..2, l \in 1..(MaxLen - 1), left \in BOOLEAN :
         \E r \in Subsets((0..(n - 1)) \X (0..l) \X (0..1), 2) :
            c = Call("insertion", Batch(n, l), ToRows({ <<t[1], t[2], (t[3] + 2) % Alpha>> : t \in r }), left)
    \/ \E l \in 1..(MaxLen - 1), left \in BOOLEAN : \E bad \in {<<2, 0, 1>>, <<0, l + 1, 1>>, <<0, 0, Alpha>>} :
            c = Call("insertion", Batch(2, l), <<bad>>, left)
    \/ \E n \in 1..2, l \in 1..(MaxLen - 1) :
         \E r \in Subsets((0..(n - 1)) \X (0..(l - 1)) \X (0..(Alpha - 1)), 2) :
            c = Call("substitution", Batch(n, l), ToRows(r), FALSE)
    \/ \E l \in 1..(MaxLen - 1) : \E bad \in {<<2, 0, 1>>, <<0, l, 1>>, <<0, 0, Alpha>>, <<1, l - 1, Alpha + 1>>} :     \* incl. a character beyond the alphabet
            c = Call("substitution", Batch(2, l), <<bad>>, FALSE)

Init == pc = "call" /\ IsCall(call) /\ exp = Outcome("none", <<>>, <<>>, <<>>)
Return == pc = "call" /\ pc' = "ret" /\ exp' = Expected(call) /\ UNCHANGED call
Spec == Init /\ [][Return]_vars

Ret == pc = "ret" /\ exp.zone \in {"accept", "either"}
\* every example loses the same total; before and after have equal length; untouched examples keep their content
SameLoss == (Ret /\ call.op = "deletion") =>
    LET D == DelCount(call.x, call.rows) IN
    \A i \in 1..N(call.x) : Len(exp.after[i]) = L(call.x) - D /\ Len(exp.before[i]) = L(call.x) - D
LengthKept == (Ret /\ call.op # "deletion") => \A i \in 1..N(call.x) : Len(exp.after[i]) = L(call.x)
\* an example without variants of its own is only trimmed (deletion) or unchanged (others)
NoLeak == Ret => \A i \in 1..N(call.x) : RowsOf(call.rows, i) = {} => exp.after[i] = exp.before[i]
\* the kept characters of a deletion are a subsequence of the original avoiding the deleted positions
DeletedGone == (Ret /\ call.op = "deletion") =>
    \A i \in 1..N(call.x) : Len(exp.after[i]) + Cardinality(Deleted(call.rows, i)) <= L(call.x)
=============================================================================

SPECIFICATION TraceSpec
CONSTANTS
  NBatches = 2
  MaxCalls = 0
  Guarded <- AllKinds
INVARIANT AtEnd
INVARIANT TExitClean
CHECK_DEADLOCK FALSE

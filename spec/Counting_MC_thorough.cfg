SPECIFICATION Spec
CONSTANTS
  MaxRows = 3
  NExamples = 2
  NAnnot = 3
  MaxPos = 4
  MaxD = 3
  KA = 4
  KL = 6
  KK = 4
INVARIANT CountTotals
INVARIANT PairSymmetric
INVARIANT PairTotal
INVARIANT SpacingWithinPairs
INVARIANT KmerTotal
CHECK_DEADLOCK FALSE

SPECIFICATION Spec
CONSTANTS
  MaxN = 4
  MaxLen = 3
  SkipRule = "le"
INVARIANT CellHoldsShorterAsQuery
INVARIANT DiagonalNeutral
INVARIANT Symmetric
INVARIANT EveryPairOnce
PROPERTY Terminates
CHECK_DEADLOCK FALSE

--------------------------------- MODULE ISM ---------------------------------
(* C09 design model: every window / batch size / output form of the bounded scope with the specified mutant table. *)
EXTENDS ISMOps
CONSTANTS Alpha, MaxL

Call(x, args, start, end, bs, out, T, tlo, thi, hyp, raw) ==
    [x |-> x, A |-> Alpha, args |-> args, start |-> start, end |-> end, bs |-> bs, out |-> out, T |-> T, U |-> IF raw THEN 1 ELSE 1 + (bs % 2),
     tlo |-> tlo, thi |-> thi, hyp |-> hyp, raw |-> raw]
VARIABLES pc, call, exp
vars == <<pc, call, exp>>

\* two fixed, different contents per length
Pat(l, k) == [q \in 1..l |-> (k * q + k) % Alpha]
\* the same content with an unknown character (all-zero column, symbol -1) in the middle
PatN(l, k) == [q \in 1..l |-> IF q = (l + 1) \div 2 THEN -1 ELSE Pat(l, k)[q]]
IsCall(c) ==
    \E l \in 1..MaxL, n \in 1..2, start \in 0..(MaxL - 1), end \in (-MaxL)..MaxL :
      /\ start < l /\ end <= l /\ end >= -l
      /\ WindowOK(Pat(l, 1), start, end)
      /\ \E bs \in {1, 3, Alpha * l + 1}, withargs \in BOOLEAN, withN \in BOOLEAN :
         LET x == IF n = 1 THEN <<(IF withN THEN PatN(l, 1) ELSE Pat(l, 1))>> ELSE <<Pat(l, 1), (IF withN THEN PatN(l, 2) ELSE Pat(l, 2))>>
             args == IF withargs THEN (IF n = 1 THEN <<5>> ELSE <<5, 11>>) ELSE <<>> IN
         \/ \E out \in {"tensor", "tuple"} : c = Call(x, args, start, end, bs, out, 2, -1, 0, FALSE, TRUE)
         \/ \E hyp \in BOOLEAN, tg \in {<<-1, 0>>, <<0, 1>>, <<1, 2>>, <<0, 2>>, <<1, 3>>} :
                c = Call(x, args, start, end, bs, "tensor", 3, tg[1], tg[2], hyp, FALSE)

Init == pc = "call" /\ IsCall(call) /\ exp = [zone |-> "none"]
Return == pc = "call" /\ pc' = "ret" /\ exp' = ISMExpected(call) /\ UNCHANGED call
Spec == Init /\ [][Return]_vars

Ret == pc = "ret" /\ exp.zone = "accept"
\* the mutant that re-writes the observed character is the original sequence: its row of yhat equals y0
SelfMutant == (Ret /\ call.raw) =>
    \A n \in 1..Len(call.x) : \A q \in 1..Len(exp.yhat[n][1]) :
        call.x[n][call.start + q] >= 0 => exp.yhat[n][call.x[n][call.start + q] + 1][q] = exp.y0[n]
\* centring: attributions over characters sum to zero at every position when hypothetical
Centred == (Ret /\ ~call.raw /\ call.hyp) =>
    \A n \in 1..Len(call.x) : \A q \in 1..Len(exp.attr[n][1]) :
        SumSet([k \in 1..call.A |-> exp.attr[n][k][q]], 1..call.A) = 0
Shape == (Ret /\ call.raw) => \A n \in 1..Len(call.x) : Len(exp.yhat[n]) = call.A /\
            Len(exp.yhat[n][1]) = EndOf(call.x[1], call.end) - call.start
=============================================================================

SPECIFICATION Spec
INVARIANT AtEnd
CHECK_DEADLOCK FALSE

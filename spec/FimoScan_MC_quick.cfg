SPECIFICATION Spec
CONSTANTS
  MaxSeq = 4
  TwoThr = FALSE
  WithN = FALSE
INVARIANT MirrorLaw
INVARIANT EveryWindow
INVARIANT FieldsOK
INVARIANT DPAgrees
CHECK_DEADLOCK FALSE

----------------------------- MODULE TomtomSched -----------------------------
(* C13: per-thread scratch reuse in tomtom._tomtom.
   NT worker threads share nothing but the read-only inputs; each owns one set of scratch regions.  Queries (with lengths
   Lens[q]) are handed to threads in ANY assignment and order (this covers every scheduler and chunking); a thread runs the
   phases of one query to completion before it takes the next:
       Dist     writes gamma / gamma_int columns 0..nq-1, resets all of f and writes rows 0..nq-1, writes medians 0..nq-1
       Bg       reads f rows 0..nq-1; resets all of A, writes A / A_csum rows (i, j), i <= j < nq; writes B rows 0..T_max
       PVal     reads gamma_int columns 0..nq-1 and B rows; writes results rows (p, score) for every target and
                (offset, overlap) for a target when its first alignment is scored -- but the tie test `score == best and
                offset >= overlap` READS offset before that write when the first alignment's score is 0 (Zero[q])
       Out      reads results, emits the query's row
   Every region carries <<query, extent>> of its last write.  A read is STALE if the region was last written for another
   query or with a smaller extent.  Mechanisms (constants) and their spec-level mutants:
       OwnScratch   threads index scratch by their own id        (FALSE: every thread uses scratch 1)
       ResetA       A is cleared for every query                 (FALSE: a shorter query sees a longer query's rows)
       InitResults  offset / overlap are defined before they are read (FALSE: as found for zero-score first alignments) *)
EXTENDS Naturals, Sequences, FiniteSets, TLC
CONSTANTS NQ, NT, Lens, Zero, OwnScratch, ResetA, InitResults
VARIABLES pending, cur, phase, tagG, tagF, tagA, tagB, tagR, stale, shared, done
vars == <<pending, cur, phase, tagG, tagF, tagA, tagB, tagR, stale, shared, done>>
Threads == 1..NT
Queries == 1..NQ
Scratch(t) == IF OwnScratch THEN t ELSE 1
None == 0
Init == /\ pending = Queries /\ cur = [t \in Threads |-> None] /\ phase = [t \in Threads |-> "idle"]
        /\ tagG = [s \in Threads |-> <<None, 0>>] /\ tagF = [s \in Threads |-> <<None, 0>>]
        /\ tagA = [s \in Threads |-> <<None, 0>>] /\ tagB = [s \in Threads |-> <<None, 0>>]
        /\ tagR = [s \in Threads |-> <<None, 0>>]
        /\ stale = {} /\ shared = {} /\ done = {}
Valid(tag, q, need) == tag[1] = q /\ tag[2] >= need
\* two threads in the middle of a query on the same scratch = sharing
Busy(s, t) == \E u \in Threads : u # t /\ Scratch(u) = s /\ phase[u] # "idle"
Take(t) == /\ phase[t] = "idle" /\ \E q \in pending :
                /\ pending' = pending \ {q} /\ cur' = [cur EXCEPT ![t] = q] /\ phase' = [phase EXCEPT ![t] = "dist"]
                /\ shared' = IF Busy(Scratch(t), t) THEN shared \cup {q} ELSE shared
           /\ UNCHANGED <<tagG, tagF, tagA, tagB, tagR, stale, done>>
Dist(t) == /\ phase[t] = "dist"
           /\ LET q == cur[t] s == Scratch(t) IN
                /\ tagG' = [tagG EXCEPT ![s] = <<q, Lens[q]>>]
                /\ tagF' = [tagF EXCEPT ![s] = <<q, Lens[q]>>]
           /\ phase' = [phase EXCEPT ![t] = "bg"] /\ UNCHANGED <<pending, cur, tagA, tagB, tagR, stale, shared, done>>
Bg(t) == /\ phase[t] = "bg"
         /\ LET q == cur[t] s == Scratch(t) IN
              /\ stale' = IF Valid(tagF[s], q, Lens[q]) /\ (ResetA \/ tagA[s][2] <= Lens[q]) THEN stale ELSE stale \cup {q}
              /\ tagA' = [tagA EXCEPT ![s] = <<q, Lens[q]>>]
              /\ tagB' = [tagB EXCEPT ![s] = <<q, Lens[q]>>]
         /\ phase' = [phase EXCEPT ![t] = "pv"] /\ UNCHANGED <<pending, cur, tagG, tagF, tagR, shared, done>>
PVal(t) == /\ phase[t] = "pv"
           /\ LET q == cur[t] s == Scratch(t) IN
                /\ stale' = IF Valid(tagG[s], q, Lens[q]) /\ Valid(tagB[s], q, Lens[q])
                               /\ (InitResults \/ ~Zero[q] \/ tagR[s][1] = q)      \* offset read before this query wrote it
                            THEN stale ELSE stale \cup {q}
                /\ tagR' = [tagR EXCEPT ![s] = <<q, 1>>]
           /\ phase' = [phase EXCEPT ![t] = "out"] /\ UNCHANGED <<pending, cur, tagG, tagF, tagA, tagB, shared, done>>
Out(t) == /\ phase[t] = "out"
          /\ LET q == cur[t] s == Scratch(t) IN
               /\ stale' = IF Valid(tagR[s], q, 1) THEN stale ELSE stale \cup {q}
               /\ done' = done \cup {q}
          /\ cur' = [cur EXCEPT ![t] = None] /\ phase' = [phase EXCEPT ![t] = "idle"]
          /\ UNCHANGED <<pending, tagG, tagF, tagA, tagB, tagR, shared>>
Next == \E t \in Threads : Take(t) \/ Dist(t) \/ Bg(t) \/ PVal(t) \/ Out(t)
Spec == Init /\ [][Next]_vars /\ WF_vars(Next)

NoStaleRead == stale = {}                  \* every region read carries the current query's data
NoSharing == shared = {}                   \* a thread never works on scratch another thread is using
ResultDependsOnQueryOnly == NoStaleRead /\ NoSharing
AllDone == <>(done = Queries)
=============================================================================

SPECIFICATION Spec
CONSTANTS
  NBatches = 3
  MaxCalls = 2
  Guarded <- AllKinds
INVARIANT ExitClean
PROPERTY StartsClean
INVARIANT CrashHonoured
INVARIANT ParamsNeverChange
PROPERTY EveryCallEnds
CHECK_DEADLOCK FALSE

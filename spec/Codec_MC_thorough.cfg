SPECIFICATION Spec
CONSTANTS
  MaxA = 4
  MaxS = 6
  MaxSize = 8
  MaxChunks = 4
INVARIANT RoundTrip
INVARIANT ReEncode
INVARIANT RCInvolution
INVARIANT RCFormsAgree
INVARIANT ChunkLaw
INVARIANT UnchunkLaw
CHECK_DEADLOCK FALSE

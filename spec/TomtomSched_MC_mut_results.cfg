SPECIFICATION Spec
CONSTANTS
  NQ = 3
  NT = 2
  Lens <- L312
  Zero <- Z1
  OwnScratch = TRUE
  ResetA = TRUE
  InitResults = FALSE
INVARIANT NoStaleRead
INVARIANT NoSharing
PROPERTY AllDone
CHECK_DEADLOCK FALSE

--------------------------- MODULE SymTomtom_Trace ---------------------------
(* symmetric_tomtom against tomtom (lane "extras" of C14; outside the listed properties).  An event carries, for one motif
   list, the lengths and two n x n matrices of cells <<p * 10^9 rounded, score, offset, overlap, strand>>: `sym` returned by
   symmetric_tomtom and `tom` returned by tomtom(Xs, Xs) with the same parameters (tomtom itself is decided by C14).
   SymIndex.tla says which comparison each cell must hold: the shorter motif (ties: the earlier) as the query.       *)
EXTENDS Integers, Sequences, FiniteSets, TLC, Json, IOUtils
Trace == ndJsonDeserialize(IOEnv.TRACE_FILE)
VARIABLES l, bad
Abs(v) == IF v < 0 THEN -v ELSE v
Before(e, i, j) == e.lens[i] < e.lens[j] \/ (e.lens[i] = e.lens[j] /\ i < j)
Want(e, i, j) == IF Before(e, i, j) THEN e.tom[i][j] ELSE e.tom[j][i]
Verdict(e) ==
    LET n == Len(e.lens) IN
    IF e.st # "ok" THEN "symmetric_tomtom raised"
    ELSE IF \E i \in 1..n : e.sym[i][i][1] # 1000000000 \/ e.sym[i][i][2] # 0 THEN "diagonal is not the neutral entry (p = 1, score 0)"
    ELSE IF \E i, j \in 1..n : i # j /\ (\E f \in 2..5 : e.sym[i][j][f] # Want(e, i, j)[f])
         THEN "score / offset / overlap / strand differ from tomtom's comparison with the shorter motif as the query"
    ELSE IF \E i, j \in 1..n : i # j /\ Abs(e.sym[i][j][1] - Want(e, i, j)[1]) > 2
         THEN "p-value differs from tomtom's comparison with the shorter motif as the query"
    ELSE ""
Init == l = 1 /\ bad = <<>>
Next == /\ l <= Len(Trace) /\ l' = l + 1
        /\ LET v == Verdict(Trace[l]) IN bad' = IF v = "" THEN bad ELSE Append(bad, <<Trace[l].id, v>>)
Spec == Init /\ [][Next]_<<l, bad>>
AtEnd == l = Len(Trace) + 1 => JsonSerialize(IOEnv.OUT_FILE, [consumed |-> l - 1, bad |-> bad])
=============================================================================

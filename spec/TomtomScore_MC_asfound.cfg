SPECIFICATION Spec
CONSTANTS
  DropZeroBin = TRUE
  MaxQ = 2
  MaxT = 2
  MaxG = 2
INVARIANT CdfMonotone
INVARIANT NoDrop
INVARIANT PValueRange
INVARIANT Alignment
CHECK_DEADLOCK FALSE

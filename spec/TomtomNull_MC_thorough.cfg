SPECIFICATION Spec
CONSTANTS
  DropZeroBin = FALSE
  MaxQ = 3
  NCols = 2
  NBins = 2
  TMax = 4
  IncludeZeroBin = TRUE
INVARIANT NullMatchesDefinition
INVARIANT SpanMass
PROPERTY Terminates
CHECK_DEADLOCK FALSE

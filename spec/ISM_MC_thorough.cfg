SPECIFICATION Spec
CONSTANTS
  Alpha = 4
  MaxL = 6
INVARIANT SelfMutant
INVARIANT Centred
INVARIANT Shape
CHECK_DEADLOCK FALSE

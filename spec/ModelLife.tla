------------------------------ MODULE ModelLife ------------------------------
(* C07: life-cycle of a torch model through tangermeme API calls, with crash points, over call histories.
   Every API function is a program: a sequence of primitive RUNS, each either
       "P"  a plain predict loop      (steps per batch: forward)
       "H"  a hooked deep_lift_shap   (register; per batch: slice, genrefs, reqgrad, forward, backward, delta, project,
                                        accumulate; finally clear)
   The abstract model state is what a later user of the model can observe:
       mode   "train" | "eval"         (a call may leave it in eval: allowed by the property)
       hooks  TRUE while forward/backward hooks are installed
       sd     version of parameters and buffers (0 = as before the first call; nothing may change it)
   A crash point <<run, kind, batch>> makes that step raise.  Raise passes through the handler that guards the statement:
   the step kinds in Guarded reach a handler that clears the hooks.  The design is correct iff EVERY exit leaves
   hooks = FALSE and sd = 0.  Guarded is a constant so that the as-found code (where slice / genrefs / reqgrad sat between
   registration and the try block) remains checkable as a spec-level mutant.                                         *)
EXTENDS Naturals, Sequences, FiniteSets, TLC
CONSTANTS NBatches,        \* batches per run
          MaxCalls,        \* length of a call history
          Guarded          \* step kinds whose exceptions reach a hook-clearing handler

HSteps == <<"slice", "genrefs", "reqgrad", "forward", "backward", "delta", "project", "accumulate">>
\* runs of every API function and batches per run, for the inputs the conformance driver uses (harness/impl/c07.py
\* PROGRAMS mirrors this table and a dry run checks the mirror); NBatches scales the table for deeper exploration
P(nb) == <<"P", nb>>
H(nb) == <<"H", nb>>
Programs == [ predict |-> <<P(2)>>, deep_lift_shap |-> <<H(2)>>, saturation_mutagenesis |-> <<P(1), P(2)>>,
              marginalize |-> <<P(2), P(2)>>, marginalize_dls |-> <<H(2), H(2)>>, ablate |-> <<P(1), P(2)>>,
              ablate_dls |-> <<H(2), H(2)>>, space |-> <<P(2), P(2)>>, variant_effect |-> <<P(2), P(2)>>,
              apply_product |-> <<P(2)>>, greedy_substitution |-> <<P(1), P(2)>> ]
KindOf(f, r) == Programs[f][r][1]
NB(f, r) == Programs[f][r][2] + (NBatches - 2)
Funcs == DOMAIN Programs
NoCrash == <<0, "none", 0>>
CrashPoints(f) ==
    {NoCrash} \cup
    UNION { IF KindOf(f, r) = "P" THEN { <<r, "forward", k>> : k \in 1..NB(f, r) }
            ELSE { <<r, "register", 1>> } \cup { <<r, HSteps[j], k>> : j \in 1..Len(HSteps), k \in 1..NB(f, r) }
          : r \in 1..Len(Programs[f]) }

VARIABLES pc,        \* "idle" | "run" | "returned" | "raised"
          func, crash, run, step, batch,     \* the call in progress
          mode, hooks, ops, sd,              \* the model
          ncalls,                            \* calls completed so far in this history
          hist                               \* the calls made so far, <<function, crash point>> (history variable: lets
                                             \* every explored history be replayed against the implementation)
vars == <<pc, func, crash, run, step, batch, mode, hooks, ops, sd, ncalls, hist>>

Init == /\ pc = "idle" /\ func = "predict" /\ crash = NoCrash /\ run = 0 /\ step = "none" /\ batch = 0
        /\ mode \in {"train", "eval"} /\ hooks = FALSE /\ ops = FALSE /\ sd = 0 /\ ncalls = 0 /\ hist = <<>>

CallWith(f, cp) == /\ pc \in {"idle", "returned", "raised"}
                   /\ func' = f /\ crash' = cp /\ run' = 1 /\ batch' = 1
                   /\ step' = IF KindOf(f, 1) = "H" THEN "register" ELSE "forward"
                   /\ mode' = "eval" /\ ops' = (KindOf(f, 1) = "H")
                   /\ pc' = "run" /\ UNCHANGED <<hooks, sd, ncalls>>
Call == /\ ncalls < MaxCalls
        /\ \E f \in Funcs : \E cp \in CrashPoints(f) : CallWith(f, cp) /\ hist' = Append(hist, <<f, cp>>)

Hit == crash = <<run, step, batch>>
Kind == KindOf(func, run)
Raise == /\ Hit /\ pc' = "raised" /\ ncalls' = ncalls + 1
         /\ hooks' = IF step \in Guarded THEN FALSE ELSE hooks
         /\ UNCHANGED <<func, crash, run, step, batch, mode, ops, sd, hist>>
NextRun == \* the current run is complete: clear (H) and start the next run or return
    IF run < Len(Programs[func])
    THEN /\ run' = run + 1 /\ batch' = 1 /\ hooks' = FALSE
         /\ step' = IF KindOf(func, run + 1) = "H" THEN "register" ELSE "forward"
         /\ ops' = (KindOf(func, run + 1) = "H") /\ UNCHANGED <<pc, ncalls>>
    ELSE /\ pc' = "returned" /\ ncalls' = ncalls + 1 /\ hooks' = FALSE /\ ops' = FALSE /\ UNCHANGED <<run, step, batch>>
Step == /\ pc = "run" /\ ~Hit
        /\ IF Kind = "P"
           THEN IF batch < NB(func, run) THEN batch' = batch + 1 /\ UNCHANGED <<pc, run, step, hooks, ops, ncalls>> ELSE NextRun
           ELSE IF step = "register" THEN hooks' = TRUE /\ step' = HSteps[1] /\ UNCHANGED <<pc, run, batch, ops, ncalls>>
           ELSE LET j == CHOOSE i \in 1..Len(HSteps) : HSteps[i] = step IN
                IF j < Len(HSteps) THEN step' = HSteps[j + 1] /\ UNCHANGED <<pc, run, batch, hooks, ops, ncalls>>
                ELSE IF batch < NB(func, run) THEN batch' = batch + 1 /\ step' = HSteps[1] /\ UNCHANGED <<pc, run, hooks, ops, ncalls>>
                ELSE NextRun
        /\ UNCHANGED <<func, crash, mode, sd, hist>>
Next == Call \/ (pc = "run" /\ Raise) \/ Step
Spec == Init /\ [][Next]_vars /\ WF_vars(Step) /\ WF_vars(pc = "run" /\ Raise)

\* ---------------------------------------------------------------- properties
ExitClean == pc \in {"returned", "raised"} => ~hooks /\ sd = 0
\* a call only starts on a clean model (so every history on a shared model behaves like fresh copies)
StartsClean == [][(pc # "run" /\ pc' = "run") => ~hooks]_vars
CrashHonoured == pc = "returned" => crash = NoCrash
ParamsNeverChange == sd = 0
EveryCallEnds == (pc = "run") ~> (pc \in {"returned", "raised"})
=============================================================================

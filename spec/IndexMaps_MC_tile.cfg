SPECIFICATION Spec
CONSTANTS
  MaxN = 4
  MaxA = 4
  MaxP = 5
  ISMReshape = "charmajor"
  ArgRepeat = "tile"
INVARIANT ISMIndexOK
INVARIANT AblateArgsOK
INVARIANT ProductOK
CHECK_DEADLOCK FALSE

SPECIFICATION Spec
CONSTANTS
  MaxSize = 8
  MaxChunks = 5
  SingleRule = "whole"
INVARIANT ReassemblesCoveredPrefix
CHECK_DEADLOCK FALSE

SPECIFICATION Spec
CONSTANTS
  MaxMotifs = 2
  MaxW = 2
  CommitAtRowEnd = FALSE
INVARIANT AllMotifs
INVARIANT PrefixAlways
PROPERTY ParseEnds
CHECK_DEADLOCK FALSE

------------------------------ MODULE DeletionMask ------------------------------
(* C10 design model of the ALGORITHM in deletion_effect (mask arithmetic), one action per statement of the code:
     mark     mask[i][p] = 1 for every listed deletion
     count    counts[i] = max_i(#deleted) - #deleted_i            (extra positions example i has to lose)
     flank    m = mask, or mask flipped left-right when trimming from the right;
              flank[i][p] = (number of UNDELETED positions among m[i][0..p]) <= counts[i]
     add      mask += flank (flipped back)                         -- a position may now hold 2: deleted AND inside the flank
     keep     kept positions = those whose mask is 0                (KeepRule = "zero", the repaired code)
                              those where 1 - mask is truthy        (KeepRule = "truthy", as found: 1 - 2 = -1 is truthy)
   Theorem (checked for every deletion set of the scope): the kept positions are exactly VariantOps!DelAfter1's, i.e. the
   deleted positions are gone and additionally the first / last (max - own) undeleted positions; every example keeps
   L - max positions.  With KeepRule = "truthy" TLC finds the deleted-inside-the-flank counter-example.                   *)
EXTENDS VariantOps
CONSTANTS Len0, NEx, MaxDel, KeepRule
VARIABLES dels, left, mask, counts, flank, pc
vars == <<dels, left, mask, counts, flank, pc>>
Pos == 1..Len0
Subs == { S \in SUBSET Pos : Cardinality(S) <= MaxDel /\ Cardinality(S) < Len0 }
Init == /\ dels \in [1..NEx -> Subs] /\ left \in BOOLEAN
        /\ mask = [i \in 1..NEx |-> [p \in Pos |-> 0]] /\ counts = [i \in 1..NEx |-> 0]
        /\ flank = [i \in 1..NEx |-> [p \in Pos |-> FALSE]] /\ pc = "mark"
Mark == /\ pc = "mark" /\ mask' = [i \in 1..NEx |-> [p \in Pos |-> IF p \in dels[i] THEN 1 ELSE 0]]
        /\ pc' = "count" /\ UNCHANGED <<dels, left, counts, flank>>
RowSum(i) == Cardinality({ p \in Pos : mask[i][p] = 1 })
Count == /\ pc = "count"
         /\ LET mx == MaxOf({ RowSum(i) : i \in 1..NEx }) IN counts' = [i \in 1..NEx |-> mx - RowSum(i)]
         /\ pc' = "flank" /\ UNCHANGED <<dels, left, mask, flank>>
Flip(p) == Len0 + 1 - p
M(i, p) == IF left THEN mask[i][p] ELSE mask[i][Flip(p)]
Cum(i, p) == Cardinality({ q \in 1..p : M(i, q) = 0 })             \* cumsum(1 - m) up to and including p
Flank == /\ pc = "flank"
         /\ LET f == [i \in 1..NEx |-> [p \in Pos |-> Cum(i, p) <= counts[i]]] IN
            flank' = [i \in 1..NEx |-> [p \in Pos |-> IF left THEN f[i][p] ELSE f[i][Flip(p)]]]
         /\ pc' = "add" /\ UNCHANGED <<dels, left, mask, counts>>
Add == /\ pc = "add" /\ mask' = [i \in 1..NEx |-> [p \in Pos |-> mask[i][p] + (IF flank[i][p] THEN 1 ELSE 0)]]
       /\ pc' = "done" /\ UNCHANGED <<dels, left, counts, flank>>
Next == Mark \/ Count \/ Flank \/ Add
Spec == Init /\ [][Next]_vars /\ WF_vars(Next)
Kept(i) == IF KeepRule = "zero" THEN { p \in Pos : mask[i][p] = 0 } ELSE { p \in Pos : 1 - mask[i][p] # 0 }
\* the declarative result, on the identity sequence (positions as content)
Ident == [p \in Pos |-> p]
Want(i) == LET D == MaxOf({ Cardinality(dels[k]) : k \in 1..NEx }) IN
           { DelAfter1(Ident, dels[i], D - Cardinality(dels[i]), left)[k] : k \in 1..(Len0 - D) }
KeepsWhatTheDefinitionKeeps == pc = "done" => \A i \in 1..NEx : Kept(i) = Want(i)
SameLoss == pc = "done" => \A i, k \in 1..NEx : Cardinality(Kept(i)) = Cardinality(Kept(k))
Terminates == <>(pc = "done")
=============================================================================

SPECIFICATION Spec
CONSTANTS
  MaxN = 10
  MaxB = 13
INVARIANT WindowsOK
INVARIANT Partition
INVARIANT EvalNoGrad
INVARIANT GradRestored
INVARIANT Rejected
PROPERTY Finishes
CHECK_DEADLOCK FALSE

------------------------------ MODULE ISM_Trace ------------------------------
(* C09 trace validation with ISMOps. *)
EXTENDS ISMOps, Json, IOUtils
Trace == ndJsonDeserialize(IOEnv.TRACE_FILE)
VARIABLES l, bad
Verdict(e) ==
    LET ex == ISMExpected(e) IN
    IF ~e.same THEN "a caller's tensor was modified"
    ELSE IF ex.zone = "either" THEN ""
    ELSE IF e.st # "ok" THEN "raised on a valid window"
    ELSE IF ~e.valid THEN "result has the wrong shape or non-integral values"
    ELSE IF e.raw /\ e.y0 # ex.y0 THEN "y0 is not the model on the original sequences"
    ELSE IF e.raw /\ e.yhat # ex.yhat THEN "y_hat[n, c, p-start] is not the model on sequence n with position p set to c"
    ELSE IF e.raw /\ e.out = "tuple" /\ (e.y0b # ex.y0b \/ e.yhatb # ex.yhatb) THEN "second output of a tuple model is mis-indexed"
    ELSE IF ~e.raw /\ e.attr # ex.attr THEN "attribution is not the documented function of y0 and y_hat"
    ELSE ""
Init == l = 1 /\ bad = <<>>
Next == /\ l <= Len(Trace) /\ l' = l + 1
        /\ LET v == Verdict(Trace[l]) IN bad' = IF v = "" THEN bad ELSE Append(bad, <<Trace[l].id, v>>)
Spec == Init /\ [][Next]_<<l, bad>>
AtEnd == l = Len(Trace) + 1 => JsonSerialize(IOEnv.OUT_FILE, [consumed |-> l - 1, bad |-> bad])
=============================================================================

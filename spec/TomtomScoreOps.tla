--------------------------- MODULE TomtomScoreOps ---------------------------
(* C14: TOMTOM complete scores and their null distribution, from the definition (NOT the code's convolution / max recursion).
   G[c][q]   integerised similarity (>= 0) of pooled target column c to query column q (both 1-based)
   u         the score every UNALIGNED query column contributes (the integerised median, `offset` in the code)
   tlens     lengths of the targets, in pooled-column order (with reverse complement: all forward targets, then all RC ones)
   cnt[c]    multiplicity of pooled column c (all 1 unless columns were hashed together)
   For a relative offset k in 1..nt+nq-1 target column tc is aligned with query column qc iff tc + (nq - qc) = k;
   reported offset = k - nq (target position minus query position), overlap = number of aligned pairs.
   Null model: every aligned query column draws its target column independently from the pooled columns (weights cnt).
   DropZeroBin = TRUE reproduces the as-found null, which loses the probability mass of draws whose integerised similarity
   is 0 (histogram bin 0 is never copied); the property is DropZeroBin = FALSE.                                          *)
EXTENDS Rat, Naturals, FiniteSets, FiniteSetsExt, TLC
CONSTANT DropZeroBin

Aligned(nq, nt, k) == { <<tc, qc>> \in (1..nt) \X (1..nq) : tc + (nq - qc) = k }
ScoreAt(G, u, nq, nt, toff, k) ==
    LET al == Aligned(nq, nt, k) IN
    FoldSet(LAMBDA pr, acc : acc + G[toff + pr[1]][pr[2]], 0, al) + u * (nq - Cardinality(al))
TotalCnt(cnt) == FoldSet(LAMBDA c, acc : acc + cnt[c], 0, DOMAIN cnt)
\* exact CDF of offset k's score: P(score_k <= smax)
CdfAt(G, u, cnt, nq, nt, k, smax) ==
    LET qcols == { pr[2] : pr \in Aligned(nq, nt, k) }
        draws == [qcols -> DOMAIN cnt]
        W(d) == FoldSet(LAMBDA q, acc : acc * cnt[d[q]], 1, qcols)
        good == { d \in draws :
                    /\ (DropZeroBin => \A q \in qcols : G[d[q]][q] # 0)
                    /\ FoldSet(LAMBDA q, acc : acc + G[d[q]][q], 0, qcols) + u * (nq - Cardinality(qcols)) <= smax }
        tot == FoldSet(LAMBDA q, acc : acc * TotalCnt(cnt), 1, qcols)
    IN Norm(FoldSet(LAMBDA d, acc : acc + W(d), 0, good), tot)
ROneMinus(p) == RSub(ROne, p)
MaxOf(S) == CHOOSE v \in S : \A w \in S : w <= v
\* one target on one strand: best score, admissible (offset, overlap) pairs, p-value
Target(c, t) ==
    LET nq == c.nq nt == c.tlens[t]
        toff == FoldSet(LAMBDA j, acc : acc + c.tlens[j], 0, 1..(t - 1))
        K == 1..(nt + nq - 1)
        sc == [k \in K |-> ScoreAt(c.G, c.u, nq, nt, toff, k)]
        best == MaxOf({ sc[k] : k \in K })
        adm == { <<k - nq, Cardinality(Aligned(nq, nt, k))>> : k \in { kk \in K : sc[kk] = best } }
        prod == IF c.checkp THEN FoldSet(LAMBDA k, acc : RMul(acc, CdfAt(c.G, c.u, c.cnt, nq, nt, k, best - 1)), ROne, K) ELSE ROne
    IN [score |-> best, adm |-> adm, p |-> ROneMinus(prod)]     \* checkp = FALSE: long motifs, scores and alignments only
\* strand merge: p = 1 - (1 - min p)^2, the higher score wins (equal scores: either strand)
Merge(a, b) ==
    \* the square would overflow 32-bit rationals: the result carries the exact smaller p-value (psingle) and the harness
    \* applies p = 1 - (1 - psingle)^2 to it in floating point
    LET pm == IF RLt(b.p, a.p) THEN b.p ELSE a.p IN
    [p |-> pm, squared |-> TRUE,
     score |-> IF a.score >= b.score THEN a.score ELSE b.score,
     adm |-> (IF a.score >= b.score THEN { <<x[1], x[2], 0>> : x \in a.adm } ELSE {})
             \cup (IF b.score >= a.score THEN { <<x[1], x[2], 1>> : x \in b.adm } ELSE {})]
\* column similarity must be monotone in the exact squared distance D[c][q] (grid integers)
Monotone(G, D) == \A q \in DOMAIN G[1] : \A c1, c2 \in DOMAIN G : D[c1][q] < D[c2][q] => G[c1][q] >= G[c2][q]
SqDist(a, b) == FoldSet(LAMBDA r, acc : acc + (a[r] - b[r]) * (a[r] - b[r]), 0, DOMAIN a)
=============================================================================

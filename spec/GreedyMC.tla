------------------------------ MODULE GreedyMC ------------------------------
EXTENDS Greedy
Unlimited == -1
Pr(xx, ms, y, mask, tol2, maxit, km) == [x |-> xx, motifs |-> ms, y |-> y, mask |-> mask, tol2 |-> tol2, maxit |-> maxit, km |-> km]
Xs(l) == { [i \in 1..l |-> (i * k) % 4] : k \in 0..2 }
MotifSets == { << <<1>> >>, << <<2, 3>> >>, << <<0>>, <<3, 1>> >>, << <<1, 1, 2>> >>, << <<3>>, <<2>> >>,
               << <<3, 1>>, <<0>> >>, << <<1, 1, 2>>, <<2>>, <<0, 3>> >>,
               << <<3>>, <<3>>, <<2>> >>, << <<0>>, <<3, 1>>, <<0>>, <<2>> >> }      \* a motif listed twice before another one      \* a longer motif listed BEFORE a shorter one
Ys == { <<0, 0>>, <<3, -2>>, <<-4, 5>> }
\* tol2 = 4, 8 with a one-output mask: a first improvement d with tol2/2 < d <= tol2, followed by a second improving step, lies between tol * (masked outputs) and tol * (all outputs), so a
\* loss averaged over ALL outputs instead of the masked ones stops early (round-2 seed C20-5)
ProblemsQ == { Pr(xx, ms, y, mask, tol2, maxit, km) :
                 xx \in Xs(3) \cup Xs(4), ms \in MotifSets, y \in Ys, mask \in {{0, 1}, {1}, {0}},
                 tol2 \in {0, 1, 4, 8}, maxit \in {0, 1, 2, Unlimited}, km \in {1, 2} }
\* a smaller family under the asymmetric loss (the order of loss(y, y_hat) matters)
ProblemsA == { [x |-> xx, motifs |-> ms, y |-> y, mask |-> mask, tol2 |-> tol2, maxit |-> maxit, km |-> km, loss |-> "asym"] :
                 xx \in Xs(3) \cup Xs(4), ms \in { << <<1>> >>, << <<0>>, <<3, 1>> >>, << <<3>>, <<2>> >> }, y \in Ys,
                 mask \in {{0, 1}, {1}}, tol2 \in {0, 1}, maxit \in {1, Unlimited}, km \in {1, 2} }
ProblemsT == { Pr(xx, ms, y, mask, tol2, maxit, km) :
                 xx \in Xs(3) \cup Xs(4) \cup Xs(5) \cup Xs(6), ms \in MotifSets, y \in Ys \cup { <<1, 7>>, <<-6, -6>> },
                 mask \in {{0, 1}, {1}, {0}}, tol2 \in {0, 1, 2, 4, 6, 8, 16}, maxit \in {0, 1, 2, 3, Unlimited}, km \in {1, 2, 3} }
ProblemsQA == ProblemsQ \cup ProblemsA
ProblemsTA == ProblemsT \cup ProblemsA
=============================================================================

SPECIFICATION Spec
CONSTANTS
  MaxW = 2
  Lo <- LoQ
  Hi = 1
INVARIANT Mass
INVARIANT Support
INVARIANT TailOK
PROPERTY Terminates
CHECK_DEADLOCK FALSE

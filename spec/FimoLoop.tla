-------------------------------- MODULE FimoLoop --------------------------------
(* C12 design model of the window LOOP in fimo._fast_hits for one motif on one sequence, one action per window:
   i runs over range(L - w + 1) (LastWindow = TRUE, repaired) or range(L - w) (FALSE, as found); a window whose score exceeds
   the threshold is appended.  Theorem: when the loop ends, the collected hits are exactly FimoOps!HitsOf (every start
   0..L-w inclusive); with LastWindow = FALSE TLC returns the motif planted at the end of the sequence.                  *)
EXTENDS FimoOps
CONSTANTS MaxSeq, LastWindow
VARIABLES motif, seq, i, hits, pc
vars == <<motif, seq, i, hits, pc>>
Motifs == { [c \in 1..4 |-> [j \in 1..2 |-> IF c = a THEN 1 ELSE IF c = b /\ j = 2 THEN 0 ELSE -1]] : a \in 1..4, b \in 1..4 }
Thr == <<5, 32>>
Bound == Len(seq) - W(motif) + (IF LastWindow THEN 1 ELSE 0)
Init == /\ motif \in Motifs /\ \E l \in 1..MaxSeq : seq \in [1..l -> 0..3]
        /\ i = 0 /\ hits = {} /\ pc = "loop"
Window == /\ pc = "loop" /\ i < Bound
          /\ hits' = IF WindowScore(motif, seq, i) > ThreshBin(motif, Thr) THEN hits \cup { <<i, WindowScore(motif, seq, i)>> } ELSE hits
          /\ i' = i + 1 /\ UNCHANGED <<motif, seq, pc>>
Finish == /\ pc = "loop" /\ i >= Bound /\ pc' = "done" /\ UNCHANGED <<motif, seq, i, hits>>
Next == Window \/ Finish
Spec == Init /\ [][Next]_vars /\ WF_vars(Next)
EveryWindowScored == pc = "done" => hits = HitsOf(motif, seq, Thr)
InBounds == \A h \in hits : h[1] >= 0 /\ h[1] + W(motif) <= Len(seq)
Terminates == <>(pc = "done")
=============================================================================

------------------------------ MODULE TomtomScore ------------------------------
(* C14 design model: every small similarity matrix (one query of nq columns against one target of nt columns, pool = the
   target's columns), the specified result, and laws of the specification checked in every state:
     CdfMonotone   the null CDF of every offset is non-decreasing in the score, 0 below the smallest and 1 at the largest
     PValueRange   0 <= p <= 1 and p is non-increasing in the best score
     Alignment     the admissible alignments are non-empty, overlaps lie in 1..min(nq, nt), offsets in -(nq-1)..nt-1
     NoDrop        the CDF of every offset reaches exactly 1: no probability mass is lost (fails with DropZeroBin = TRUE) *)
EXTENDS TomtomScoreOps
CONSTANTS MaxQ, MaxT, MaxG
VARIABLES c, r, pc
vars == <<c, r, pc>>
Init == /\ pc = "call" /\ r = <<>>
        /\ \E nq \in 1..MaxQ, nt \in 1..MaxT, u \in 0..1 : \E G \in [1..nt -> [1..nq -> 0..MaxG]] :
              c = [nq |-> nq, G |-> G, u |-> u, tlens |-> <<nt>>, cnt |-> [j \in 1..nt |-> 1], checkp |-> TRUE]
Eval == /\ pc = "call" /\ pc' = "ret" /\ r' = Target(c, 1) /\ UNCHANGED c
Spec == Init /\ [][Eval]_vars
Ret == pc = "ret"
SMax == c.nq * (MaxG + 1) + 1
K == 1..(c.tlens[1] + c.nq - 1)
CdfMonotone == Ret => \A k \in K :
    /\ \A s \in 0..SMax : ~RLt(CdfAt(c.G, c.u, c.cnt, c.nq, c.tlens[1], k, s + 1), CdfAt(c.G, c.u, c.cnt, c.nq, c.tlens[1], k, s))
    /\ CdfAt(c.G, c.u, c.cnt, c.nq, c.tlens[1], k, -1) = RZero
NoDrop == Ret => \A k \in K : CdfAt(c.G, c.u, c.cnt, c.nq, c.tlens[1], k, SMax) = ROne
PValueRange == Ret => r.p[1] >= 0 /\ r.p[1] <= r.p[2]
Alignment == Ret => /\ r.adm # {}
                    /\ \A x \in r.adm : x[2] >= 1 /\ x[2] <= c.nq /\ x[2] <= c.tlens[1] /\ x[1] >= -(c.nq - 1) /\ x[1] <= c.tlens[1] - 1
=============================================================================

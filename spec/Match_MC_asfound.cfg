SPECIFICATION Spec
CONSTANTS
  NB = 3
  MaxC = 2
  SpillToZero = FALSE
INVARIANT Conserve
INVARIANT BoundsAlways
INVARIANT FinalOK
PROPERTY Terminates
CHECK_DEADLOCK FALSE

---------------------------- MODULE Session_Trace ----------------------------
EXTENDS Session, Json, IOUtils
Trace == ndJsonDeserialize(IOEnv.TRACE_FILE)
VARIABLES l, bad, notes
Verdict(e) ==
    IF ~ArgsUntouched(e) THEN "a tensor passed by the caller was modified"
    ELSE IF ~ModelUntouched(e) THEN "the model was left with hooks or changed parameters / buffers"
    ELSE ""
Init == l = 1 /\ bad = <<>> /\ notes = 0
Next == /\ l <= Len(Trace) /\ l' = l + 1
        /\ LET e == Trace[l] v == Verdict(e) IN
             /\ bad' = IF v = "" THEN bad ELSE Append(bad, <<e.id, v>>)
             /\ notes' = IF ThreadsRestored(e) THEN notes ELSE notes + 1
Spec == Init /\ [][Next]_<<l, bad, notes>>
AtEnd == l = Len(Trace) + 1 => JsonSerialize(IOEnv.OUT_FILE, [consumed |-> l - 1, bad |-> bad, notes |-> notes])
=============================================================================

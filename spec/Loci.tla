--------------------------------- MODULE Loci ---------------------------------
(* C16 design model for extract_loci: enumerated calls with the loci that must / may be kept. *)
EXTENDS LociOps
CONSTANTS CL, MaxWin

Genome == << [q \in 1..CL |-> (q * q + q \div 3) % 4], [q \in 1..(CL - 3) |-> IF q = 4 THEN -1 ELSE (3 * q + 1) % 4] >>
Call(sets, allowed, inw, outw, jit, minc, maxc, nloci, sig, insig) ==
    [genome |-> Genome, sets |-> sets, allowed |-> allowed, inw |-> inw, outw |-> outw, jit |-> jit, minc |-> minc,
     maxc |-> maxc, nloci |-> nloci, sig |-> sig, insig |-> insig]
VARIABLES pc, call, exp
vars == <<pc, call, exp>>
IsCall(c) ==
    \/ \E s \in 0..(CL - 1), inw \in 1..MaxWin, outw \in 1..MaxWin, jit \in 0..1, sig \in BOOLEAN :
         \E e \in (s + 1)..CL : c = Call(<< << <<0, s, e>> >> >>, <<>>, inw, outw, jit, -1, -1, -1, sig, FALSE)
    \/ \E k1 \in 1..3, k2 \in 0..3, k3 \in 0..2, nl \in {-1, 1, 3}, al \in {<<>>, <<1>>, <<0, 1>>}, inw \in {2, 3}, insig \in BOOLEAN :
         LET S1 == [j \in 1..k1 |-> <<0, 2 * j + 1, 2 * j + 3>>]
             S2 == [j \in 1..k2 |-> <<1, j + 2, j + 5>>]
             S3 == [j \in 1..k3 |-> <<0, 3 + j, 8 + j>>] IN
         c = Call(<<S1>> \o (IF k2 = 0 THEN <<>> ELSE <<S2>>) \o (IF k3 = 0 THEN <<>> ELSE <<S3>>), al, inw, 2, 0, -1, -1, nl, TRUE, insig)
    \/ \E minc \in {-1, 20, 40}, maxc \in {-1, 30, 45} :
         c = Call(<< [j \in 1..4 |-> <<0, 2 * j, 2 * j + 2>>] >>, <<>>, 2, 4, 0, minc, maxc, -1, TRUE, FALSE)
Init == pc = "call" /\ IsCall(call) /\ exp = <<>>
Return == /\ pc = "call" /\ pc' = "ret" /\ UNCHANGED call
          /\ exp' = [must |-> Select(call, Candidates(call), FALSE, 0), may |-> Select(call, Candidates(call), TRUE, 0)]
Spec == Init /\ [][Return]_vars
\* the interleave visits every locus exactly once and keeps each set's own order
InterleaveOK == LET I == Interleave(call.sets, 1, 1) IN
    /\ Len(I) = LET RECURSIVE T(_) T(k) == IF k = 0 THEN 0 ELSE Len(call.sets[k]) + T(k - 1) IN T(Len(call.sets))
    /\ \A k \in DOMAIN call.sets : \A a, b \in DOMAIN call.sets[k] : a < b =>
          \E i, j \in DOMAIN I : i < j /\ I[i] = call.sets[k][a] /\ I[j] = call.sets[k][b]
\* the code's interleave key: locus `row` of set `k` (0-based) gets idx = row * (number of sets) + k and the table is sorted by
\* idx -- that order is exactly the round-robin Interleave (design-level check of io._interleave_loci)
RECURSIVE RRPairs(_, _, _)
RRPairs(F, row, k) == IF row > MaxLen(F) THEN <<>> ELSE IF k > Len(F) THEN RRPairs(F, row + 1, 1)
                      ELSE (IF row <= Len(F[k]) THEN << <<k, row>> >> ELSE <<>>) \o RRPairs(F, row, k + 1)
SortByKeyRef(F) == RRPairs(F, 1, 1)
RECURSIVE SortByKey(_)
SortByKey(S) == IF S = {} THEN <<>> ELSE LET m == CHOOSE x \in S : \A y \in S : x[1] <= y[1] IN <<m[2]>> \o SortByKey(S \ {m})
IdxOrderIsRoundRobin ==
    LET F == FilterSets(call) K == Len(F) IN
    SortByKey({ x \in { << (row - 1) * K + (k - 1), <<k, row>> >> : k \in 1..K, row \in 1..4 } : x[2][2] <= Len(F[x[2][1]]) })
        = SortByKeyRef(F)
WindowsInside == pc = "ret" => \A j \in DOMAIN exp.may : Lo(call, exp.may[j]) >= 0 /\ Hi(call, exp.may[j]) <= ChromLen(call, exp.may[j])
WindowLength == pc = "ret" => \A j \in DOMAIN exp.may : Len(SeqOf(call, exp.may[j])) = call.inw + 2 * call.jit
=============================================================================

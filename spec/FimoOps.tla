------------------------------- MODULE FimoOps -------------------------------
(* C11 / C12: FIMO on integer (already discretised) log-odds matrices.
   M[c][j]  score contribution of character c (1..4) at motif column j (1..w); a window's score is the sum over its columns,
            an unknown character (-1) contributes 0.
   Counts, not probabilities: Tail(M, b) = number of the 4^w sequences whose score is >= b; the p-value of bin b is Tail/4^w. *)
EXTENDS Integers, Sequences, FiniteSets, FiniteSetsExt, TLC

W(M) == Len(M[1])
RECURSIVE Pow4(_)
Pow4(n) == IF n = 0 THEN 1 ELSE 4 * Pow4(n - 1)
ColMin(M, j) == CHOOSE v \in { M[c][j] : c \in 1..4 } : \A c \in 1..4 : v <= M[c][j]
ColMax(M, j) == CHOOSE v \in { M[c][j] : c \in 1..4 } : \A c \in 1..4 : v >= M[c][j]
RECURSIVE SumCols(_, _, _)
SumCols(M, F(_, _), j) == IF j = 0 THEN 0 ELSE F(M, j) + SumCols(M, F, j - 1)
MinScore(M) == SumCols(M, ColMin, W(M))
MaxScore(M) == SumCols(M, ColMax, W(M))
\* ---- definition by enumeration of all sequences (the meaning of the table)
RECURSIVE ScoreOf(_, _, _)
ScoreOf(M, s, j) == IF j = 0 THEN 0 ELSE (IF s[j] = -1 THEN 0 ELSE M[s[j] + 1][j]) + ScoreOf(M, s, j - 1)
TailBF(M, b) == Cardinality({ s \in [1..W(M) -> 0..3] : ScoreOf(M, s, W(M)) >= b })
\* ---- dynamic programme over columns: pmf[j] is a function score -> number of length-j prefixes with that score
Conv(M, j, pmf, lo, hi) ==
    [s \in lo..hi |-> FoldSet(LAMBDA c, acc : acc + (IF s - M[c][j] >= lo /\ s - M[c][j] <= hi THEN pmf[s - M[c][j]] ELSE 0), 0, 1..4)]
RECURSIVE TailFrom(_, _, _)
TailFrom(pmf, b, hi) == IF b > hi THEN 0 ELSE pmf[b] + TailFrom(pmf, b + 1, hi)

\* the same tail by the dynamic programme (FimoTable.tla shows DP = enumeration on the exhaustive small scope)
LoB(M) == SumCols(M, LAMBDA A, j : IF ColMin(A, j) < 0 THEN ColMin(A, j) ELSE 0, W(M))
HiB(M) == SumCols(M, LAMBDA A, j : IF ColMax(A, j) > 0 THEN ColMax(A, j) ELSE 0, W(M))
RECURSIVE PmfDP(_, _, _, _, _)
PmfDP(M, j, pmf, lo, hi) == IF j > W(M) THEN pmf ELSE PmfDP(M, j + 1, TLCEval(Conv(M, j, pmf, lo, hi)), lo, hi)
TailTable(M) == LET lo == LoB(M) hi == HiB(M)
                    pmf == PmfDP(M, 1, [s \in lo..hi |-> IF s = 0 THEN 1 ELSE 0], lo, hi)
                IN TLCEval([b \in lo..(hi + 1) |-> TailFrom(pmf, b, hi)])
TailIn(T, M, b) == IF b < LoB(M) THEN Pow4(W(M)) ELSE IF b > HiB(M) THEN 0 ELSE T[b]

\* ---- scanning
RCMotif(M) == [c \in 1..4 |-> [j \in 1..W(M) |-> M[5 - c][W(M) + 1 - j]]]
WindowScore(M, x, start) == ScoreOf(M, SubSeq(x, start + 1, start + W(M)), W(M))          \* start 0-based
\* score threshold implied by the p-value threshold thr = <<num, den>>: the first bin whose tail probability is below thr
ThreshBin(M, thr) ==
    LET B == { b \in (MinScore(M) - 1)..(MaxScore(M) + 2) : TailBF(M, b) * thr[2] < thr[1] * Pow4(W(M)) } IN
    CHOOSE b \in B : \A v \in B : b <= v
\* hits of one motif on one strand: windows at EVERY start 0..L-w whose score exceeds the threshold
HitsOf(M, x, thr) ==
    { <<st, WindowScore(M, x, st)>> : st \in { q \in 0..(Len(x) - W(M)) : WindowScore(M, x, q) > ThreshBin(M, thr) } }
\* full hit set: <<motif, sequence, start, end, strand, score, tail count of the score's bin>>; strand 0 = "+", 1 = "-"
AllHits(motifs, seqs, thr, rc) ==
    UNION { UNION { LET Mx == IF sd = 0 THEN motifs[m] ELSE RCMotif(motifs[m]) IN
                    { <<m - 1, i - 1, h[1], h[1] + W(Mx), sd, h[2], TailBF(Mx, h[2])>> : h \in HitsOf(Mx, seqs[i], thr) }
                    : sd \in (IF rc THEN {0, 1} ELSE {0}) } : m \in DOMAIN motifs, i \in DOMAIN seqs }
RCSeq(x) == [i \in 1..Len(x) |-> IF x[Len(x) + 1 - i] = -1 THEN -1 ELSE 3 - x[Len(x) + 1 - i]]
\* the same hit set computed with the DP tail (used for wider motifs in trace validation)
\* lt: how the implementation's FLOAT table resolved a mathematical tie "tail probability = threshold" for this motif and strand
\* (log2 of a tail that is not a power of two is rounded, so a tie may come out on either side; the recorded event says which).
\* Without a tie (every enumerated model threshold, most recorded ones) lt is irrelevant.
ThreshBinT(T, M, thr, lt) ==
    LET B == { b \in (LoB(M) - 1)..(HiB(M) + 2) : \/ TailIn(T, M, b) * thr[2] < thr[1] * Pow4(W(M))
                                                  \/ lt /\ TailIn(T, M, b) * thr[2] = thr[1] * Pow4(W(M)) } IN
    CHOOSE b \in B : \A v \in B : b <= v
AllHitsDPT(motifs, seqs, thr, rc, lt) ==
    UNION { UNION { LET Mx == IF sd = 0 THEN motifs[m] ELSE RCMotif(motifs[m])
                        T == TailTable(Mx)
                        tb == ThreshBinT(T, Mx, thr, lt[m][sd + 1]) IN
                    UNION { { <<m - 1, i - 1, q, q + W(Mx), sd, WindowScore(Mx, seqs[i], q), TailIn(T, Mx, WindowScore(Mx, seqs[i], q))>> :
                              q \in { q \in 0..(Len(seqs[i]) - W(Mx)) : WindowScore(Mx, seqs[i], q) > tb } } : i \in DOMAIN seqs }
                    : sd \in (IF rc THEN {0, 1} ELSE {0}) } : m \in DOMAIN motifs }
AllHitsDP(motifs, seqs, thr, rc) == AllHitsDPT(motifs, seqs, thr, rc, [m \in DOMAIN motifs |-> <<FALSE, FALSE>>])
Mirror(H, seqs) == { <<h[1], h[2], Len(seqs[h[2] + 1]) - h[4], Len(seqs[h[2] + 1]) - h[3], 1 - h[5], h[6], h[7]>> : h \in H }
=============================================================================

------------------------------- MODULE FimoScan -------------------------------
(* C12 design model: the hit set of a scan for every (motif, sequence, threshold) of the bounded scope, both strands.
   Motif columns come from the exact lane: permutations of the log-odds (1, 0, -1, -1) (PWM column (1/2, 1/4, 1/8, 1/8)). *)
EXTENDS FimoOps
CONSTANTS MaxSeq, WithN, TwoThr
Cols == { <<1, 0, -1, -1>>, <<-1, 1, 0, -1>>, <<-1, -1, 1, 0>>, <<0, -1, -1, 1>> }
MotifOf(cs) == [c \in 1..4 |-> [j \in 1..Len(cs) |-> cs[j][c]]]
Motifs == { MotifOf(cs) : cs \in [1..2 -> Cols] } \cup { MotifOf(<<a, b, a>>) : a \in Cols, b \in Cols }
Thr(w) == IF w = 2 THEN (IF TwoThr THEN { <<5, 32>>, <<17, 32>> } ELSE { <<9, 32>> })
          ELSE (IF TwoThr THEN { <<9, 128>>, <<41, 128>> } ELSE { <<21, 128>> })
VARIABLES pc, motif, seq, thr, hits
vars == <<pc, motif, seq, thr, hits>>
Init == /\ pc = "call" /\ motif \in Motifs
        /\ \E l \in 1..MaxSeq : seq \in [1..l -> (IF WithN THEN -1..3 ELSE 0..3)]
        /\ thr \in Thr(W(motif)) /\ hits = {}
Scan == /\ pc = "call" /\ pc' = "ret" /\ hits' = AllHits(<<motif>>, <<seq>>, thr, TRUE) /\ UNCHANGED <<motif, seq, thr>>
Spec == Init /\ [][Scan]_vars
Ret == pc = "ret"
\* scanning the reverse complement of the sequence gives the mirror-image hit set with strands exchanged
MirrorLaw == Ret => AllHits(<<motif>>, <<RCSeq(seq)>>, thr, TRUE) = Mirror(hits, <<seq>>)
\* every window is considered: a hit exists at start q iff its score exceeds the threshold, for q = 0 .. L - w inclusive
EveryWindow == Ret => \A q \in 0..(Len(seq) - W(motif)) :
                  (WindowScore(motif, seq, q) > ThreshBin(motif, thr)) <=> (\E h \in hits : h[3] = q /\ h[5] = 0)
FieldsOK == Ret => \A h \in hits : h[4] = h[3] + W(motif) /\ h[7] >= 1 /\ h[7] * thr[2] < thr[1] * Pow4(W(motif))
DPAgrees == Ret => AllHitsDP(<<motif>>, <<seq>>, thr, TRUE) = hits
=============================================================================

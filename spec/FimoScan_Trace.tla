---------------------------- MODULE FimoScan_Trace ----------------------------
(* C12 trace validation: the hit set reported by fimo() (every field), and the agreement of its representations. *)
EXTENDS FimoOps, Json, IOUtils
Trace == ndJsonDeserialize(IOEnv.TRACE_FILE)
VARIABLES l, bad
HitSet(e) == { <<h[1], h[2], h[3], h[4], h[5], h[6], h[7]>> : h \in { e.hits[k] : k \in DOMAIN e.hits } }
Verdict(e) ==
    IF e.st # "ok" THEN "fimo raised on a valid input"
    ELSE IF ~e.exact THEN "a reported score or p-value is not on the exact grid of this motif (score/bin_size integral, p*4^w integral)"
    ELSE LET want == AllHitsDPT(e.motifs, e.seqs, e.thr, e.rc, e.tielt) got == HitSet(e) IN
         IF Cardinality(got) # Len(e.hits) THEN "a hit is reported twice"
         ELSE IF \E h \in want : ~(\E g \in got : g[1] = h[1] /\ g[2] = h[2] /\ g[3] = h[3] /\ g[5] = h[5])
              THEN "a window whose score exceeds the threshold is not reported"
         ELSE IF \E g \in got : ~(\E h \in want : g[1] = h[1] /\ g[2] = h[2] /\ g[3] = h[3] /\ g[5] = h[5])
              THEN "a window that does not exceed the threshold is reported"
         ELSE IF got # want THEN "a hit has a wrong end / score / p-value"
         ELSE IF ~e.fasta_same THEN "FASTA and tensor input describe different hit sets"
         ELSE IF ~e.dim1_same THEN "dim=1 grouping describes a different hit set"
         ELSE IF ~e.counts_same THEN "return_counts disagrees with the hit set"
         ELSE IF ~e.threads_same THEN "hit set depends on the thread count"
         ELSE ""
Init == l = 1 /\ bad = <<>>
Next == /\ l <= Len(Trace) /\ l' = l + 1
        /\ LET v == Verdict(Trace[l]) IN bad' = IF v = "" THEN bad ELSE Append(bad, <<Trace[l].id, v>>)
Spec == Init /\ [][Next]_<<l, bad>>
AtEnd == l = Len(Trace) + 1 => JsonSerialize(IOEnv.OUT_FILE, [consumed |-> l - 1, bad |-> bad])
=============================================================================

------------------------------- MODULE Session -------------------------------
(* G4: the cross-call state of a session that uses tangermeme -- caller-owned tensors, models, the numba thread count -- and
   the frame conditions every public API call must respect:
       ArgsUntouched    no call changes the bytes of a tensor / array it was given                     (C01, C02, C03, C19, ...)
       ModelUntouched   a call that takes a model leaves it without hooks and with identical parameters and buffers,
                        whether it returns or raises                                                           (C07)
       ThreadsRestored  the numba thread count after a call equals the one before                  (reported as a NOTE only:
                        it is not part of a listed property; tomtom(n_jobs=k) that raises leaves it at k)
   The state machine: `tensors` and `models` map object ids to digests / records; Call(e) is the only action and is enabled
   only if the frame conditions hold between the pre- and post-observation logged in e.  Session_Trace validates the calls
   made by the repository's OWN test-suite (recorded by harness/recorder/verif_rec.py) against it.                          *)
EXTENDS Integers, Sequences, FiniteSets, TLC
ArgsUntouched(e) == e.before = e.after
ModelUntouched(e) == /\ \A k \in DOMAIN e.mhooks_after : e.mhooks_after[k] = 0 \/ e.mhooks_after[k] = e.mhooks_before[k]
                     /\ e.msd_after = e.msd_before
ThreadsRestored(e) == e.threads_after = e.threads_before
FirstChanged(e) == CHOOSE k \in DOMAIN e.before : e.before[k] # e.after[k] /\ \A j \in DOMAIN e.before : j < k => e.before[j] = e.after[j]
=============================================================================

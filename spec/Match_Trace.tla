----------------------------- MODULE Match_Trace -----------------------------
(* C17 trace validation.  One event per extract_matching_loci call on a synthetic genome whose tiles were designed:
     tiles    per chromosome, per tile: <<gcbin, nok, sigok, masked, isinput>>   (facts about the generated genome)
     ret      returned loci as <<chromosome, start, end>>;  ret2 the same call with another n_jobs
     w        in_window;  lens  chromosome lengths;  nbins
   Eligible background = tiles that are not masked (not touched by an input locus), N fraction ok, signal ok.        *)
EXTENDS MatchOps, Json, IOUtils
Trace == ndJsonDeserialize(IOEnv.TRACE_FILE)
VARIABLES l, bad
TileOf(r, w) == r[2] \div w
Aligned(e, r) == r[2] >= 0 /\ r[2] % e.w = 0 /\ r[3] = r[2] + e.w /\ r[3] <= e.lens[r[1] + 1]
Tile(e, r) == e.tiles[r[1] + 1][TileOf(r, e.w) + 1]
Eligible(t) == t[2] /\ t[3] /\ ~t[4]
Bg0(e) == [b \in 1..e.nbins |-> Cardinality({ <<c, k>> \in UNION { {ch} \X DOMAIN e.tiles[ch] : ch \in DOMAIN e.tiles } :
                                               Eligible(e.tiles[c][k]) /\ e.tiles[c][k][1] = b - 1 })]
Loci0(e) == [b \in 1..e.nbins |-> Cardinality({ <<c, k>> \in UNION { {ch} \X DOMAIN e.tiles[ch] : ch \in DOMAIN e.tiles } :
                                                 e.tiles[c][k][5] /\ e.tiles[c][k][1] = b - 1 })]
M(e) == [b \in 1..e.nbins |-> Cardinality({ j \in DOMAIN e.ret : Tile(e, e.ret[j])[1] = b - 1 })]
Verdict(e) ==
    IF e.st # "ok" THEN "raised on a valid genome"
    ELSE IF \E j \in DOMAIN e.ret : ~Aligned(e, e.ret[j]) THEN "a returned locus is not an in_window-aligned tile inside its chromosome"
    ELSE IF \E j, k \in DOMAIN e.ret : j < k /\ e.ret[j] = e.ret[k] THEN "a locus is returned twice"
    ELSE IF \E j \in DOMAIN e.ret : Tile(e, e.ret[j])[4] THEN "a returned locus falls in a tile touched by an input locus"
    ELSE IF \E j \in DOMAIN e.ret : ~Tile(e, e.ret[j])[2] THEN "a returned locus has an N fraction above max_n_perc"
    ELSE IF \E j \in DOMAIN e.ret : ~Tile(e, e.ret[j])[3] THEN "a returned locus has summed signal above signal_beta times the robust minimum"
    ELSE IF ~WithinBackground(M(e), Bg0(e)) THEN "a GC bin received more than its eligible background"
    ELSE IF ~AtLeastExact(M(e), Loci0(e), Bg0(e)) THEN "a GC bin received fewer than min(input count, eligible background count)"
    ELSE IF ~NoMoreThanInputs(M(e), Loci0(e)) THEN "more loci returned than usable input loci"
    ELSE IF ~UnmatchedOnlyIfExhausted(M(e), Loci0(e), Bg0(e)) THEN "input loci went unmatched although eligible background remained"
    ELSE IF e.ret2 # e.ret THEN "result depends on n_jobs for a fixed random_state"
    ELSE ""
Init == l = 1 /\ bad = <<>>
Next == /\ l <= Len(Trace) /\ l' = l + 1
        /\ LET v == Verdict(Trace[l]) IN bad' = IF v = "" THEN bad ELSE Append(bad, <<Trace[l].id, v>>)
Spec == Init /\ [][Next]_<<l, bad>>
AtEnd == l = Len(Trace) + 1 => JsonSerialize(IOEnv.OUT_FILE, [consumed |-> l - 1, bad |-> bad])
=============================================================================

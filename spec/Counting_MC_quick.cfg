SPECIFICATION Spec
CONSTANTS
  MaxRows = 3
  NExamples = 2
  NAnnot = 2
  MaxPos = 3
  MaxD = 2
  KA = 3
  KL = 6
  KK = 3
INVARIANT CountTotals
INVARIANT PairSymmetric
INVARIANT PairTotal
INVARIANT SpacingWithinPairs
INVARIANT KmerTotal
CHECK_DEADLOCK FALSE

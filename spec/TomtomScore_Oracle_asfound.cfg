SPECIFICATION Spec
CONSTANTS
  DropZeroBin = TRUE
CHECK_DEADLOCK FALSE

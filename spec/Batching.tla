------------------------------ MODULE Batching ------------------------------
(* C03: predict's batching loop, one action per step of the code.
   n      number of examples;  b  requested batch size;  argn  leading dimension of every extra argument
   start  loop counter;  calls  the windows <<lo, hi>> (half-open, 0-based) handed to the model so far
   mode   "train" | "eval";  grad  whether autograd is enabled;  res  the row ids of the returned concatenation
   Enter switches the model to eval BEFORE the arguments are checked (as the code does).                        *)
EXTENDS Naturals, Integers, Sequences, FiniteSets, TLC
CONSTANTS MaxN, MaxB
VARIABLES pc, n, b, argn, start, calls, mode, grad, res
vars == <<pc, n, b, argn, start, calls, mode, grad, res>>

Minimum(x, y) == IF x < y THEN x ELSE y
Window(s, bb, nn) == <<s, Minimum(s + bb, nn)>>
Rows(w) == [i \in 1..(w[2] - w[1]) |-> w[1] + i - 1]
RECURSIVE Flatten(_, _)
Flatten(ws, i) == IF i > Len(ws) THEN <<>> ELSE Rows(ws[i]) \o Flatten(ws, i + 1)

Idle == /\ pc = "idle" /\ n = 0 /\ b = 0 /\ argn = <<>> /\ start = 0 /\ calls = <<>> /\ res = <<>>
Init == Idle /\ mode \in {"train", "eval"} /\ grad = TRUE

Enter(nn, bb, an) == /\ pc \in {"idle", "returned", "rejected"}
                     /\ n' = nn /\ b' = bb /\ argn' = an /\ start' = 0 /\ calls' = <<>> /\ res' = <<>>
                     /\ mode' = "eval" /\ pc' = "check" /\ UNCHANGED grad
CheckArgs == /\ pc = "check"
             /\ pc' = IF \E k \in DOMAIN argn : argn[k] # n THEN "rejected" ELSE "clamp"
             /\ UNCHANGED <<n, b, argn, start, calls, mode, grad, res>>
Clamp == /\ pc = "clamp" /\ b' = Minimum(b, n) /\ grad' = FALSE /\ pc' = "loop"
         /\ UNCHANGED <<n, argn, start, calls, mode, res>>
Batch == /\ pc = "loop" /\ start < n
         /\ mode = "eval" /\ ~grad                       \* the model only ever runs in eval mode without autograd
         /\ calls' = Append(calls, Window(start, b, n))   \* the SAME window for X and for every argument
         /\ start' = start + b
         /\ UNCHANGED <<pc, n, b, argn, mode, grad, res>>
Concat == /\ pc = "loop" /\ start >= n
          /\ res' = Flatten(calls, 1) /\ grad' = TRUE /\ pc' = "returned"
          /\ UNCHANGED <<n, b, argn, start, calls, mode>>
Next == \/ \E nn \in 1..MaxN, bb \in 1..MaxB, k \in 0..2, d \in {0, 1} :
              Enter(nn, bb, [j \in 1..k |-> IF j = k /\ d = 1 THEN nn + 1 ELSE nn])
        \/ CheckArgs \/ Clamp \/ Batch \/ Concat
Spec == Init /\ [][Next]_vars /\ WF_vars(CheckArgs \/ Clamp \/ Batch \/ Concat)

\* ---------------------------------------------------------------- properties
WindowsOK == \A k \in 1..Len(calls) :
                /\ calls[k][1] < calls[k][2]                                \* never empty
                /\ calls[k][2] - calls[k][1] <= b                            \* never larger than the batch size
                /\ calls[k][1] = (IF k = 1 THEN 0 ELSE calls[k - 1][2])      \* consecutive, starting at 0
                /\ calls[k][2] <= n
Partition == pc = "returned" => /\ res = [i \in 1..n |-> i - 1]             \* every example exactly once, in input order
                                /\ Len(calls) >= 1 /\ calls[Len(calls)][2] = n
EvalNoGrad == pc = "loop" => mode = "eval" /\ ~grad
GradRestored == pc \in {"returned", "rejected", "idle"} => grad
Rejected == pc = "rejected" => calls = <<>> /\ \E k \in DOMAIN argn : argn[k] # n
Finishes == (pc = "check") ~> (pc \in {"returned", "rejected"})
=============================================================================

SPECIFICATION Spec
CONSTANTS
  DropZeroBin = FALSE
  MaxQ = 2
  NCols = 2
  NBins = 2
  TMax = 3
  IncludeZeroBin = FALSE
INVARIANT NullMatchesDefinition
INVARIANT SpanMass
PROPERTY Terminates
CHECK_DEADLOCK FALSE

SPECIFICATION Spec
CONSTANTS
  NQ = 4
  NT = 3
  Lens <- L2131
  Zero <- Z1
  OwnScratch = TRUE
  ResetA = TRUE
  InitResults = TRUE
INVARIANT NoStaleRead
INVARIANT NoSharing
PROPERTY AllDone
CHECK_DEADLOCK FALSE

SPECIFICATION Spec
CONSTANTS
  A = 3
  MinL = 1
  MaxL = 6
  NShuf = 1
  KeepLast = TRUE
INVARIANT NeverStranded
INVARIANT EveryWalkOK
INVARIANT AllConsumed
PROPERTY Terminates
CHECK_DEADLOCK FALSE

--------------------------- MODULE Counting_Trace ---------------------------
(* C18 trace validation: recorded calls of count_annotations / pairwise_annotations /
   pairwise_annotations_spacing / kmers are decided with CountingOps. *)
EXTENDS CountingOps, Json, IOUtils
Trace == ndJsonDeserialize(IOEnv.TRACE_FILE)
VARIABLES l, bad
Verdict(e) ==
    LET ex == Expected(e) IN
    IF ex.zone = "reject" /\ e.st # "err" THEN "accepted a shape smaller than the observed indices"
    ELSE IF ex.zone = "accept" /\ e.st # "ok" THEN "raised on a valid table (every pair outside [0, max_distance) must simply contribute nothing)"
    ELSE IF e.st = "ok" /\ e.y # ex.y THEN "counts differ from direct enumeration"
    ELSE ""
Init == l = 1 /\ bad = <<>>
Next == /\ l <= Len(Trace) /\ l' = l + 1
        /\ LET v == Verdict(Trace[l]) IN bad' = IF v = "" THEN bad ELSE Append(bad, <<Trace[l].id, v>>)
Spec == Init /\ [][Next]_<<l, bad>>
AtEnd == l = Len(Trace) + 1 => JsonSerialize(IOEnv.OUT_FILE, [consumed |-> l - 1, bad |-> bad])
=============================================================================

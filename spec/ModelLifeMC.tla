----------------------------- MODULE ModelLifeMC -----------------------------
EXTENDS ModelLife
AllKinds == {"register", "slice", "genrefs", "reqgrad", "forward", "backward", "delta", "project", "accumulate"}
AsFound == {"register", "forward", "backward", "delta"}      \* what the handlers covered before the repair
=============================================================================

-------------------------------- MODULE Codec --------------------------------
(* C15 design model: the bounded scope of codec calls with their specified results, and the algebraic laws. *)
EXTENDS CodecOps
CONSTANTS MaxA, MaxS, MaxSize, MaxChunks

Letters == <<65, 67, 71, 84>>           \* A C G T
Foreign == 90                           \* Z: in neither alphabet nor ignore
Alphabet(a) == SubSeq(Letters, 1, a)
Call(op, str, alphabet, ignore, x, comp, xs, size, ov) ==
    [op |-> op, str |-> str, alphabet |-> alphabet, ignore |-> ignore, x |-> x, comp |-> comp, xs |-> xs, size |-> size, ov |-> ov]
PosCoded(L, k) == [p \in 1..L |-> 100 * k + p]

VARIABLES pc, call, exp
vars == <<pc, call, exp>>

IsCall(c) ==
    \/ \E a \in 1..MaxA, l \in 0..MaxS, ig \in {<<>>, <<NCode>>, <<NCode, 45>>, <<65>>} :     \* <<65>> overlaps the alphabet
         \E str \in [1..l -> {Alphabet(a)[i] : i \in 1..a} \cup {NCode, 45, Foreign}], op \in {"encode", "roundtrip"} :
            /\ ~(op = "roundtrip" /\ l = 0)
            /\ c = Call(op, str, Alphabet(a), ig, <<>>, <<>>, <<>>, 0, 0)
    \/ \E a \in 1..MaxA, l \in 1..MaxS : \E x \in [1..l -> -1..(a - 1)], op \in {"decode", "reencode"} :
            c = Call(op, <<>>, Alphabet(a), <<>>, x, <<>>, <<>>, 0, 0)
    \/ \E a \in 2..MaxA, l \in 1..MaxS : \E comp \in [1..a -> 0..(a - 1)] : Involution(comp) /\
         \/ \E x \in [1..l -> -1..(a - 1)] : c = Call("rc_tensor", <<>>, Alphabet(a), <<>>, x, comp, <<>>, 0, 0)
         \/ \E str \in [1..l -> {Alphabet(a)[i] : i \in 1..a} \cup {NCode}] :
                c = Call("rc_string", str, Alphabet(a), <<>>, <<>>, comp, <<>>, 0, 0)
    \/ \E size \in 1..MaxSize : \E ov \in 0..(size - 1), k1 \in 1..MaxChunks, k2 \in 0..MaxChunks, k3 \in 0..1 :
         \E r1 \in 0..(size - ov - 1), r2 \in {0, size - ov - 1}, op \in {"chunk", "unchunk"} :
            LET L(k, r) == size + (k - 1) * (size - ov) + r
                xs == <<PosCoded(L(k1, r1), 1)>> \o (IF k2 = 0 THEN <<>> ELSE <<PosCoded(L(k2, r2), 2)>>)
                      \o (IF k3 = 0 \/ k2 = 0 THEN <<>> ELSE <<PosCoded(L(k3, 0), 3)>>)
            IN c = Call(op, <<>>, <<>>, <<>>, <<>>, <<>>, xs, size, ov)

Init == pc = "call" /\ IsCall(call) /\ exp = [zone |-> "none", y |-> <<>>]
Return == pc = "call" /\ pc' = "ret" /\ exp' = Expected(call) /\ UNCHANGED call
Spec == Init /\ [][Return]_vars

Ret == pc = "ret" /\ exp.zone = "accept"
\* ---- laws (they validate the oracle and are what the property states)
RoundTrip == (Ret /\ call.op = "roundtrip") =>        \* decode . encode = id, ignored characters |-> N
    \A i \in DOMAIN call.str : exp.y[i] = (IF InSeq(call.str[i], call.alphabet) THEN call.str[i] ELSE NCode)
ReEncode == (Ret /\ call.op = "reencode") => Encode(Decode(call.x, call.alphabet), call.alphabet, <<NCode>>) = call.x
RCInvolution == /\ (Ret /\ call.op = "rc_tensor") => RCSym(exp.y, call.comp) = call.x
                /\ (Ret /\ call.op = "rc_string") => RCStr(exp.y, call.alphabet, call.comp) = call.str
RCFormsAgree == (Ret /\ call.op = "rc_string") =>      \* encode . rc_string = rc_tensor . encode
    Encode(exp.y, call.alphabet, <<NCode>>) = RCSym(Encode(call.str, call.alphabet, <<NCode>>), call.comp)
\* unchunk . chunk: every chunk is a window of its sequence, windows tile the covered prefix
ChunkLaw == (Ret /\ call.op = "chunk") =>
    /\ \A j \in DOMAIN exp.y : Len(exp.y[j]) = call.size
    /\ LET u == Unchunk(call.xs, call.size, call.ov) IN
       \A i \in DOMAIN call.xs : \A q \in 1..Len(u[i]) :
           \E j \in DOMAIN exp.y, t \in 1..call.size : exp.y[j][t] = call.xs[i][q]
UnchunkLaw == (Ret /\ call.op = "unchunk") =>
    \A i \in DOMAIN call.xs : /\ Len(exp.y[i]) <= Len(call.xs[i]) /\ Len(exp.y[i]) > Len(call.xs[i]) - (call.size - call.ov)
                             /\ exp.y[i] = SubSeq(call.xs[i], 1, Len(exp.y[i]))
=============================================================================

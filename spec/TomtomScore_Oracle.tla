-------------------------- MODULE TomtomScore_Oracle --------------------------
(* M3 lane of C14.  Cases: [id, nq, G, u, tlens, cnt, rc, qcols, tcols] (qcols / tcols: the PWM columns as grid integers,
   tcols in pooled order).  Results: per target the specified score, admissible alignments and exact p-value (merged over
   strands when rc), plus the monotonicity verdict of the integeriser.  Theorems asserted on every case: the p-value lies
   in [0, 1]; a query compared with a target identical to itself has offset 0 with full overlap among its best alignments. *)
EXTENDS TomtomScoreOps, Json, IOUtils
Cases == ndJsonDeserialize(IOEnv.CASES)
NT(c) == IF c.rc THEN Len(c.tlens) \div 2 ELSE Len(c.tlens)
Eval(c) ==
    LET per == [t \in 1..NT(c) |-> IF c.rc THEN Merge(Target(c, t), Target(c, t + NT(c)))
                                     ELSE LET r == Target(c, t) IN [p |-> r.p, squared |-> FALSE, score |-> r.score, adm |-> { <<x[1], x[2], 0>> : x \in r.adm }]]
        D == [j \in 1..Len(c.tcols) |-> [q \in 1..c.nq |-> SqDist(c.qcols[q], c.tcols[j])]]
    IN [id |-> c.id, per |-> [t \in 1..NT(c) |-> [p |-> per[t].p, squared |-> per[t].squared, score |-> per[t].score, adm |-> SetToSeq(per[t].adm)]],
        monotone |-> Monotone(c.G, D),
        \* rounding rule of the integeriser, where the scaled similarity v is exactly representable (c.V2 = 2 v, -1 elsewhere):
        \* the integerised similarity is the NEAREST integer, an exact tie k + 1/2 goes UP:  x = floor(v + 1/2) = (2 v + 1) div 2
        rounding |-> \A j \in DOMAIN c.G : \A q \in DOMAIN c.G[j] : c.V2[j][q] < 0 \/ c.G[j][q] = (c.V2[j][q] + 1) \div 2,
        ties |-> Cardinality({ <<j, q>> \in (DOMAIN c.G) \X (1..c.nq) : c.V2[j][q] >= 0 /\ c.V2[j][q] % 2 = 1 }),
        selfok |-> (c.self = 0 \/ \E x \in per[c.self].adm : x[1] = 0 /\ x[2] = c.nq),
        pok |-> \A t \in 1..NT(c) : per[t].p[1] >= 0 /\ per[t].p[1] <= per[t].p[2]]
Results == [i \in 1..Len(Cases) |-> Eval(Cases[i])]
ASSUME /\ \A i \in 1..Len(Cases) : Results[i].pok /\ Results[i].selfok
       /\ ndJsonSerialize(IOEnv.OUT, Results)
VARIABLE dummy
Init == dummy = 0
Next == UNCHANGED dummy
Spec == Init /\ [][Next]_dummy
=============================================================================

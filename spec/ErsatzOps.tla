------------------------------ MODULE ErsatzOps ------------------------------
(* C01: the edit primitives of tangermeme.ersatz as string surgery.
   A sequence is a tuple over 0..A-1; a batch is a tuple of equally long sequences.
   Positions are 0-based as in the API.  A call is a record
       [op, A, x, mo, start, end, sp]
   op    : "substitute" | "insert" | "delete" | "multisubstitute" | "randomize"
   x     : batch
   mo    : tuple of motif batches (one for substitute/insert, several for multisubstitute);
           a motif batch has 1 (shared) or Len(x) (one per example) motifs
   start : integer position or NoStart (the API's start=None)
   end   : integer (delete / randomize), 0 otherwise
   sp    : tuple of spacings (multisubstitute), <<>> otherwise
   The specified outcome of a call is  [zone, y]  with
       zone = "accept" : the call must return y        (MustAccept)
              "reject" : the call must raise           (MustReject)
              "either" : it may raise; if it returns it must return y
   For "randomize" y is not a value but the relation RandomizedOK.               *)
EXTENDS Integers, Sequences, FiniteSets, TLC

NoStart == 9999

\* ------------------------------------------------------------------ string surgery
Sub1(x, m, p) == [i \in 1..Len(x) |-> IF i > p /\ i <= p + Len(m) THEN m[i - p] ELSE x[i]]
Ins1(x, m, p) == SubSeq(x, 1, p) \o m \o SubSeq(x, p + 1, Len(x))
Del1(x, s, e) == SubSeq(x, 1, s) \o SubSeq(x, e + 1, Len(x))

MotifFor(mb, i) == IF Len(mb) = 1 THEN mb[1] ELSE mb[i]
SeqLen(x) == Len(x[1])
MotLen(mb) == Len(mb[1])
BatchOK(x, mb) == Len(mb) = 1 \/ Len(mb) = Len(x)      \* shared or one per example, never broadcast

SubB(x, mb, p) == [i \in 1..Len(x) |-> Sub1(x[i], MotifFor(mb, i), p)]
InsB(x, mb, p) == [i \in 1..Len(x) |-> Ins1(x[i], MotifFor(mb, i), p)]
DelB(x, s, e) == [i \in 1..Len(x) |-> Del1(x[i], s, e)]

Out(zone, y) == [zone |-> zone, y |-> y]

\* ------------------------------------------------------------------ substitute
SubStart(x, mb, start) == IF start = NoStart THEN SeqLen(x) \div 2 - MotLen(mb) \div 2 ELSE start
SubInside(x, mb, p) == p >= 0 /\ p + MotLen(mb) <= SeqLen(x)
ExpSubstitute(x, mb, start) ==
    LET p == SubStart(x, mb, start) IN
    IF BatchOK(x, mb) /\ SubInside(x, mb, p) THEN Out("accept", SubB(x, mb, p)) ELSE Out("reject", <<>>)

\* ------------------------------------------------------------------ insert
\* InsertStrictReject: the implementation re-uses substitute's guard, so it also rejects L-m < p <= L.
\* The statement only demands rejection when the position is not inside the sequence: that span is "either".
ExpInsert(x, mb, start) ==
    LET p == IF start = NoStart THEN SeqLen(x) \div 2 ELSE start
        L == SeqLen(x) IN
    IF ~BatchOK(x, mb) \/ p < 0 \/ p > L THEN Out("reject", <<>>)
    ELSE IF start = NoStart \/ p <= L - MotLen(mb) THEN Out("accept", InsB(x, mb, p))
    ELSE Out("either", InsB(x, mb, p))

\* ------------------------------------------------------------------ delete
ExpDelete(x, s, e) ==
    LET L == SeqLen(x) IN
    IF s < 0 \/ e > L \/ e < s THEN Out("reject", <<>>)
    ELSE IF s = e THEN Out("either", x)           \* empty span: removing nothing is also what was asked
    ELSE Out("accept", DelB(x, s, e))

\* ------------------------------------------------------------------ multisubstitute
Bad == <<>>
RECURSIVE MultiFrom(_, _, _, _, _)
MultiFrom(x, mos, sp, k, p) ==          \* substitute motifs k.. starting at p; "bad" if one does not fit
    IF k > Len(mos) THEN x
    ELSE IF ~(BatchOK(x, mos[k]) /\ SubInside(x, mos[k], p)) THEN Bad
    ELSE MultiFrom(SubB(x, mos[k], p), mos, sp, k + 1,
                   p + MotLen(mos[k]) + (IF k <= Len(sp) THEN sp[k] ELSE 0))
RECURSIVE SumTo(_, _)
SumTo(s, i) == IF i = 0 THEN 0 ELSE s[i] + SumTo(s, i - 1)
SumSeq(s) == SumTo(s, Len(s))
ExpMulti(x, mos, sp, start) ==
    LET lens == [k \in 1..Len(mos) |-> MotLen(mos[k])]
        p0 == IF start = NoStart THEN SeqLen(x) \div 2 - (SumSeq(sp) + SumSeq(lens)) \div 2 ELSE start
        r == IF Len(sp) # Len(mos) - 1 \/ (\E k \in 1..Len(sp) : sp[k] < 0) THEN Bad
             ELSE MultiFrom(x, mos, sp, 1, p0)
    IN IF r = Bad THEN Out("reject", <<>>) ELSE Out("accept", r)

\* ------------------------------------------------------------------ randomize
\* RandomizeStrictReject: the implementation rejects end = L; the statement allows it ("either").
ExpRandomize(x, s, e) ==
    LET L == SeqLen(x) IN
    IF s < 0 \/ e > L \/ e <= s THEN Out("reject", <<>>)
    ELSE IF e = L THEN Out("either", <<>>) ELSE Out("accept", <<>>)
\* y: tuple (examples) of tuples (n draws) of sequences, -1 = not a valid one-hot column
RandomizedOK(x, s, e, y) ==
    /\ Len(y) = Len(x)
    /\ \A i \in 1..Len(x) : \A j \in 1..Len(y[i]) :
          /\ Len(y[i][j]) = Len(x[i])
          /\ \A q \in 1..Len(x[i]) : /\ y[i][j][q] >= 0
                                     /\ (q <= s \/ q > e) => y[i][j][q] = x[i][q]

ErsatzExpected(c) ==
    CASE c.op = "substitute"      -> ExpSubstitute(c.x, c.mo[1], c.start)
      [] c.op = "insert"          -> ExpInsert(c.x, c.mo[1], c.start)
      [] c.op = "delete"          -> ExpDelete(c.x, c.start, c.end)
      [] c.op = "multisubstitute" -> ExpMulti(c.x, c.mo, c.sp, c.start)
      [] c.op = "randomize"       -> ExpRandomize(c.x, c.start, c.end)

=============================================================================

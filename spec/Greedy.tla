------------------------------- MODULE Greedy -------------------------------
(* C20: greedy_substitution as a loop, one action per iteration, with a brute-force candidate set.
   The model being designed against is a fixed exact-integer linear read-out of the one-hot sequence
        F_t(x) = SUM_p Wt(t, p, x[p])          Wt(t, p, c) = (((c+1)*(p+Km) + t*c*c + Km) % 5) - 2       (p 1-based)
   (mirrored by harness/impl/c20.py; the final scaled loss logged by the implementation cross-checks the mirror).
   Loss = mean over the masked outputs of (y_t - F_t(x))^2; it is kept SCALED by the number M of masked outputs
   (sl = SUM (y_t - F_t)^2), so everything is an integer; tol is given as Tol2 / 2 and compared as
   improvement > tol  <=>  2 * (sl - sl') > Tol2 * M.
   Statement: every accepted iteration applies a (motif, position) with the smallest loss among ALL motifs and ALL fitting
   positions 0..L-len(motif) (ties: any of them); nothing is applied unless the loss strictly improves; the loop stops after
   MaxIter substitutions or as soon as the best improvement is not above tol (whether a last improvement in (0, tol] is still
   applied is not fixed by the statement: both are admissible).  LastPos = FALSE removes the last fitting position from the
   candidate set: the as-found behaviour, kept as the spec-level mutant.                                                   *)
EXTENDS Integers, Sequences, FiniteSets, TLC
CONSTANTS Problems,      \* set of problem records [x, motifs, y, mask, tol2, maxit, km]
          LastPos
VARIABLES prob, x, sl, it, pc, applied
vars == <<prob, x, sl, it, pc, applied>>

Wt(t, p, c, km) == (((c + 1) * (p + km) + t * c * c + km) % 5) - 2
RECURSIVE SumP(_, _, _, _)
SumP(xx, t, km, p) == IF p = 0 THEN 0 ELSE Wt(t, p, xx[p], km) + SumP(xx, t, km, p - 1)
F(xx, t, km) == SumP(xx, t, km, Len(xx))
Sq(v) == v * v
\* loss(y, y_hat) per output.  "mse": (y - y_hat)^2.  "asym": an asymmetric loss, (y - y_hat)^2 when the prediction is at or below
\* the target and 3 (y - y_hat)^2 when it overshoots -- the ORDER of the two arguments matters (a problem without the field is mse)
LossKind(pr) == IF "loss" \in DOMAIN pr THEN pr.loss ELSE "mse"
Cost(pr, y, yhat) == IF LossKind(pr) = "asym" /\ yhat > y THEN 3 * Sq(y - yhat) ELSE Sq(y - yhat)
RECURSIVE SumMask(_, _, _)
SumMask(pr, xx, ts) == IF ts = {} THEN 0 ELSE LET t == CHOOSE t \in ts : TRUE IN
                        Cost(pr, pr.y[t + 1], F(xx, t, pr.km)) + SumMask(pr, xx, ts \ {t})
SL(pr, xx) == SumMask(pr, xx, pr.mask)
M(pr) == Cardinality(pr.mask)
Sub1(xx, mo, p) == [i \in 1..Len(xx) |-> IF i > p /\ i <= p + Len(mo) THEN mo[i - p] ELSE xx[i]]
Candidates(pr, xx) == { <<k, p>> \in (1..Len(pr.motifs)) \X (0..Len(xx)) :
                          p <= Len(xx) - Len(pr.motifs[k]) - (IF LastPos THEN 0 ELSE 1) }
MinOf(S) == CHOOSE v \in S : \A w \in S : v <= w
AboveTol(pr, d) == 2 * d > pr.tol2 * M(pr)

Init == /\ prob \in Problems /\ x = prob.x /\ sl = SL(prob, prob.x) /\ it = 0 /\ pc = "loop" /\ applied = <<>>
Stop == /\ pc = "loop" /\ (it = prob.maxit \/ Candidates(prob, x) = {}) /\ pc' = "done" /\ UNCHANGED <<prob, x, sl, it, applied>>
Iterate ==
    /\ pc = "loop" /\ it # prob.maxit /\ Candidates(prob, x) # {}
    /\ LET C == Candidates(prob, x)
           best == MinOf({ SL(prob, Sub1(x, prob.motifs[c[1]], c[2])) : c \in C })
           d == sl - best IN
       IF d <= 0 THEN pc' = "done" /\ UNCHANGED <<x, sl, it, applied>>                \* nothing improves: stop, unchanged
       ELSE \E c \in { c \in C : SL(prob, Sub1(x, prob.motifs[c[1]], c[2])) = best } :   \* ties: any best candidate
              \/ /\ x' = Sub1(x, prob.motifs[c[1]], c[2]) /\ sl' = best /\ applied' = Append(applied, c)
                 /\ it' = it + 1 /\ pc' = IF AboveTol(prob, d) THEN "loop" ELSE "done"
              \/ /\ ~AboveTol(prob, d) /\ pc' = "done" /\ UNCHANGED <<x, sl, it, applied>>   \* may also stop without applying
    /\ UNCHANGED prob
Next == Stop \/ Iterate
Spec == Init /\ [][Next]_vars /\ WF_vars(Next)

\* ---------------------------------------------------------------- properties
NeverWorse == sl <= SL(prob, prob.x)
LossConsistent == sl = SL(prob, x)
Monotone == [][sl' <= sl]_vars
ValidSeq == Len(x) = Len(prob.x) /\ \A i \in 1..Len(x) : x[i] \in 0..3
\* x differs from the start only inside windows where motifs were substituted
OnlyInWindows == \A i \in 1..Len(x) : x[i] # prob.x[i] =>
                    \E j \in 1..Len(applied) : i > applied[j][2] /\ i <= applied[j][2] + Len(prob.motifs[applied[j][1]])
IterBound == prob.maxit >= 0 => it <= prob.maxit
Terminates == <>(pc = "done")
=============================================================================

SPECIFICATION Spec
CONSTANTS
  MaxSize = 8
  MaxChunks = 5
  SingleRule = "trim"
INVARIANT ReassemblesCoveredPrefix
CHECK_DEADLOCK FALSE

SPECIFICATION Spec
CONSTANTS
  Alpha = 2
  MaxL = 5
  MaxM = 3
  MaxLB = 3
  Slack = 3
INVARIANT TypeOK
INVARIANT OutLenOK
INVARIANT Theorems
PROPERTY CallerTensorsUntouched
CHECK_DEADLOCK FALSE

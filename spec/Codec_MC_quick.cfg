SPECIFICATION Spec
CONSTANTS
  MaxA = 3
  MaxS = 4
  MaxSize = 5
  MaxChunks = 3
INVARIANT RoundTrip
INVARIANT ReEncode
INVARIANT RCInvolution
INVARIANT RCFormsAgree
INVARIANT ChunkLaw
INVARIANT UnchunkLaw
CHECK_DEADLOCK FALSE

---------------------------- MODULE Seqlet_Trace ----------------------------
EXTENDS SeqletOps, Json, IOUtils
Trace == ndJsonDeserialize(IOEnv.TRACE_FILE)
VARIABLES l, bad
Init == l = 1 /\ bad = <<>>
Next == /\ l <= Len(Trace) /\ l' = l + 1
        /\ LET v == Verdict(Trace[l]) IN bad' = IF v = "" THEN bad ELSE Append(bad, <<Trace[l].id, v>>)
Spec == Init /\ [][Next]_<<l, bad>>
AtEnd == l = Len(Trace) + 1 => JsonSerialize(IOEnv.OUT_FILE, [consumed |-> l - 1, bad |-> bad])
=============================================================================

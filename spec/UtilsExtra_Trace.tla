-------------------------- MODULE UtilsExtra_Trace --------------------------
EXTENDS UtilsExtraOps, Json, IOUtils
Trace == ndJsonDeserialize(IOEnv.TRACE_FILE)
VARIABLES l, bad, memo
Init == l = 1 /\ bad = <<>> /\ memo = <<>>
Next == /\ l <= Len(Trace) /\ l' = l + 1
        /\ LET e == Trace[l] v == Verdict(e, memo) IN
             /\ bad' = IF v = "" THEN bad ELSE Append(bad, <<e.id, v>>)
             /\ memo' = IF e.op = "random" /\ e.st = "ok" /\ e.key \notin DOMAIN memo THEN memo @@ (e.key :> e.y) ELSE memo
Spec == Init /\ [][Next]_<<l, bad, memo>>
AtEnd == l = Len(Trace) + 1 => JsonSerialize(IOEnv.OUT_FILE, [consumed |-> l - 1, bad |-> bad])
=============================================================================

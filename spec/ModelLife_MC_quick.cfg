SPECIFICATION Spec
CONSTANTS
  NBatches = 2
  MaxCalls = 2
  Guarded <- AllKinds
INVARIANT ExitClean
PROPERTY StartsClean
INVARIANT CrashHonoured
INVARIANT ParamsNeverChange
PROPERTY EveryCallEnds
CHECK_DEADLOCK FALSE

SPECIFICATION Spec
CONSTANTS
  MaxN = 4
  MaxA = 4
  MaxP = 5
  ISMReshape = "posmajor"
  ArgRepeat = "interleave"
INVARIANT ISMIndexOK
INVARIANT AblateArgsOK
INVARIANT ProductOK
CHECK_DEADLOCK FALSE

---------------------------- MODULE UtilsExtraOps ----------------------------
(* Beyond the listed properties: three more functions of tangermeme.utils, specified the same way (growth backlog of DESIGN §6).
   pwm_consensus   the consensus of a PWM given on an integer grid: 1 at the FIRST character attaining the column maximum,
                   an all-zero column stays all zero
   extract_signal  Y[i][s] = sum of X[example_i][s][start_i .. end_i)   (integer tracks)
   random_one_hot  every column of every returned sequence has exactly one 1; a one-hot probability row forces its
                   character; for a fixed integer random_state the result is a function of (shape, probs, random_state)   *)
EXTENDS Integers, Sequences, FiniteSets, TLC
RECURSIVE SumRange(_, _, _)
SumRange(t, lo, hi) == IF lo >= hi THEN 0 ELSE t[lo + 1] + SumRange(t, lo + 1, hi)
ColMax(p, q) == CHOOSE v \in { p[c][q] : c \in DOMAIN p } : \A c \in DOMAIN p : p[c][q] <= v
Consensus(p) ==            \* p[c][q]: grid integers; result: symbol per column (0-based) or -1 for an all-zero column
    [q \in 1..Len(p[1]) |->
        IF \A c \in DOMAIN p : p[c][q] = 0 THEN -1
        ELSE (CHOOSE c \in DOMAIN p : p[c][q] = ColMax(p, q) /\ \A d \in DOMAIN p : d < c => p[d][q] < ColMax(p, q)) - 1]
Signal(x, loci) == [i \in 1..Len(loci) |-> [s \in 1..Len(x[1]) |-> SumRange(x[loci[i][1] + 1][s], loci[i][2], loci[i][3])]]
Forced(probs, i) == IF \E c \in DOMAIN probs[i] : probs[i][c] = 1 THEN (CHOOSE c \in DOMAIN probs[i] : probs[i][c] = 1) - 1 ELSE -2
RandomOK(e) ==      \* e.y: tuple (examples) of symbol tuples; -1 marks a column that is not one-hot
    /\ Len(e.y) = e.n
    /\ \A i \in 1..e.n : /\ Len(e.y[i]) = e.len
                         /\ \A q \in 1..e.len : e.y[i][q] >= 0 /\ e.y[i][q] < e.A
                         /\ LET f == Forced(e.probs, IF Len(e.probs) = 1 THEN 1 ELSE i) IN f = -2 \/ \A q \in 1..e.len : e.y[i][q] = f
Verdict(e, memo) ==
    CASE e.op = "consensus" -> IF e.st # "ok" THEN "pwm_consensus raised" ELSE IF e.y # Consensus(e.p) THEN "consensus is not the first maximal character / zero column not kept" ELSE ""
      [] e.op = "signal" -> IF e.st # "ok" THEN "extract_signal raised" ELSE IF e.y # Signal(e.x, e.loci) THEN "extracted signal is not the sum over [start, end)" ELSE ""
      [] e.op = "random" -> IF e.st # "ok" THEN "random_one_hot raised"
                            ELSE IF ~RandomOK(e) THEN "random_one_hot returned a column that is not one-hot / ignored a forced character"
                            ELSE IF e.key \in DOMAIN memo /\ memo[e.key] # e.y THEN "random_one_hot is not deterministic for a fixed random_state"
                            ELSE ""
=============================================================================

------------------------------ MODULE MatchOps ------------------------------
(* C17: what a GC-matched background selection must satisfy, as predicates over per-bin counts
   (bins are 0-based in the code; tuples here are 1-based: entry b+1 is bin b).
   loci0[b]  usable input loci in GC bin b          bg0[b]  eligible background tiles in bin b
   m[b]      returned loci in bin b                                                                         *)
EXTENDS Integers, Sequences, FiniteSets, TLC
Min2(a, b) == IF a < b THEN a ELSE b
RECURSIVE SumS(_, _)
SumS(f, k) == IF k = 0 THEN 0 ELSE f[k] + SumS(f, k - 1)
Total(f) == SumS(f, Len(f))
WithinBackground(m, bg0) == \A b \in DOMAIN m : m[b] <= bg0[b]                        \* at most its eligible background
AtLeastExact(m, loci0, bg0) == \A b \in DOMAIN m : m[b] >= Min2(loci0[b], bg0[b])     \* at least min(input, background)
NoMoreThanInputs(m, loci0) == Total(m) <= Total(loci0)
\* input loci go unmatched only when the eligible background is exhausted
UnmatchedOnlyIfExhausted(m, loci0, bg0) == Total(m) < Total(loci0) => Total(m) = Total(bg0)
AllocationOK(m, loci0, bg0) ==
    WithinBackground(m, bg0) /\ AtLeastExact(m, loci0, bg0) /\ NoMoreThanInputs(m, loci0) /\ UnmatchedOnlyIfExhausted(m, loci0, bg0)
=============================================================================

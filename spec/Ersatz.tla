------------------------------- MODULE Ersatz -------------------------------
(* C01 design model: every call of the bounded scope with its specified outcome (call / return machine).
   The operators live in ErsatzOps; Ersatz_Trace validates recorded implementation calls with the same ones. *)
EXTENDS ErsatzOps

CONSTANTS Alpha,        \* alphabet size of the enumerated scope
          MaxL,         \* longest sequence
          MaxM,         \* longest motif
          MaxLB,        \* longest sequence in batches of two
          Slack         \* starts range over -Slack .. L+Slack

\* ------------------------------------------------------------------ the enumerated scope (M1)
Sym == 0..(Alpha - 1)
Seqs(l) == [1..l -> Sym]
One(l) == { <<s>> : s \in Seqs(l) }
Two(l) == { <<s, t>> : s \in Seqs(l), t \in Seqs(l) }
Starts(l) == (-Slack..(l + Slack)) \cup {NoStart}
Call(op, x, mo, start, end, sp) == [op |-> op, x |-> x, mo |-> mo, start |-> start, end |-> end, sp |-> sp]

\* The scope is written as existentials so that TLC streams the initial states instead of building one huge set.
Distinct2(l) == { b \in Two(l) : b[1] # b[2] }
IsCall(c) ==
    \/ \E op \in {"substitute", "insert"}, l \in 1..MaxL, k \in 1..MaxM :
         \E x \in One(l), mb \in One(k), st \in Starts(l) : c = Call(op, x, <<mb>>, st, 0, <<>>)
    \/ \E op \in {"substitute", "insert"}, l \in 1..MaxLB, k \in 1..2 :      \* two examples; shared, per-example, wrongly sized (3)
         \E x \in Distinct2(l), mb \in One(k) \cup Distinct2(k) \cup { <<s, s, s>> : s \in Seqs(k) }, st \in Starts(l) :
            c = Call(op, x, <<mb>>, st, 0, <<>>)
    \/ \E l \in 1..MaxL : \E x \in One(l), s \in -Slack..(l + Slack), e \in -Slack..(l + Slack) :
            c = Call("delete", x, <<>>, s, e, <<>>)
    \/ \E l \in 1..MaxLB : \E x \in Distinct2(l), s \in -Slack..(l + Slack), e \in -Slack..(l + Slack) :
            c = Call("delete", x, <<>>, s, e, <<>>)
    \/ \E l \in 1..MaxL : \E x \in One(l), s \in -Slack..(l + Slack), e \in -Slack..(l + Slack) :
            c = Call("randomize", x, <<>>, s, e, <<>>)
    \/ \E l \in 2..(MaxL - 1), k1 \in 1..2, k2 \in 1..2 :
         \E x \in One(l), m1 \in One(k1), m2 \in One(k2), sp \in -1..2, st \in Starts(l) :
            c = Call("multisubstitute", x, <<m1, m2>>, st, 0, <<sp>>)
    \/ \E l \in 1..MaxL, k \in 1..2 : \E x \in One(l), m \in One(k), st \in Starts(l) :          \* a single motif, no spacing
            c = Call("multisubstitute", x, <<m>>, st, 0, <<>>)
    \/ \E x \in Seqs(MaxL), m1 \in Seqs(1), m2 \in Seqs(1), m3 \in Seqs(2), s1 \in 0..2, s2 \in 0..1, st \in Starts(MaxL) :
            c = Call("multisubstitute", <<x>>, << <<m1>>, <<m2>>, <<m3>> >>, st, 0, <<s1, s2>>)
    \/ \E x \in Distinct2(MaxLB), m12 \in Two(1), m3 \in Seqs(1), s1 \in 0..1, st \in Starts(MaxLB) :   \* per-example first motif
            c = Call("multisubstitute", x, << m12, <<m3>> >>, st, 0, <<s1>>)

\* ------------------------------------------------------------------ call / return machine
VARIABLES pc, call, exp, store
vars == <<pc, call, exp, store>>

Init == /\ pc = "call" /\ IsCall(call) /\ exp = Out("none", <<>>)
        /\ store = <<call.x, call.mo>>                  \* the caller's tensors
Return == /\ pc = "call" /\ pc' = "ret" /\ exp' = ErsatzExpected(call)
          /\ UNCHANGED <<call, store>>                  \* frame condition: no call modifies a caller's tensor
Next == Return
Spec == Init /\ [][Next]_vars

CallerTensorsUntouched == [][store' = store]_vars

\* ------------------------------------------------------------------ properties of the oracle itself
ValidBatch(y, l) == \A i \in 1..Len(y) : Len(y[i]) = l /\ \A q \in 1..l : y[i][q] \in Sym
TypeOK == pc = "ret" => exp.zone \in {"accept", "reject", "either"}
OutLenOK == (pc = "ret" /\ exp.zone # "reject" /\ call.op # "randomize") =>
    LET L == SeqLen(call.x) IN
    CASE call.op \in {"substitute", "multisubstitute"} -> ValidBatch(exp.y, L)
      [] call.op = "insert" -> ValidBatch(exp.y, L + MotLen(call.mo[1]))
      [] call.op = "delete" -> ValidBatch(exp.y, L - (call.end - call.start))
\* delete undoes insert; substituting what is already there changes nothing; substitute touches only its window
Theorems == (pc = "ret" /\ exp.zone = "accept") =>
    CASE call.op = "insert" ->
            LET p == IF call.start = NoStart THEN SeqLen(call.x) \div 2 ELSE call.start IN
            DelB(exp.y, p, p + MotLen(call.mo[1])) = call.x
      [] call.op = "substitute" ->
            LET p == SubStart(call.x, call.mo[1], call.start) m == MotLen(call.mo[1]) IN
            /\ \A i \in 1..Len(call.x) : \A q \in 1..SeqLen(call.x) :
                  (q <= p \/ q > p + m) => exp.y[i][q] = call.x[i][q]
            /\ \A i \in 1..Len(call.x) : SubSeq(exp.y[i], p + 1, p + m) = MotifFor(call.mo[1], i)
            /\ SubB(exp.y, [i \in 1..Len(call.x) |-> SubSeq(call.x[i], p + 1, p + m)], p) = call.x
      [] call.op = "multisubstitute" ->      \* equals the sequential substitution
            IF Len(call.mo) = 1 THEN exp.y = SubB(call.x, call.mo[1], SubStart(call.x, call.mo[1], call.start)) ELSE
            LET m1 == call.mo[1] m2 == call.mo[2]
                lens == [k \in 1..Len(call.mo) |-> MotLen(call.mo[k])]
                p0 == IF call.start = NoStart
                      THEN SeqLen(call.x) \div 2 - (SumSeq(call.sp) + SumSeq(lens)) \div 2 ELSE call.start
                y2 == SubB(SubB(call.x, m1, p0), m2, p0 + MotLen(m1) + call.sp[1]) IN
            IF Len(call.mo) = 2 THEN exp.y = y2
            ELSE exp.y = SubB(y2, call.mo[3], p0 + MotLen(m1) + call.sp[1] + MotLen(m2) + call.sp[2])
      [] OTHER -> TRUE
=============================================================================

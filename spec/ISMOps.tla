------------------------------- MODULE ISMOps -------------------------------
(* C09: saturation mutagenesis.
   The model under mutagenesis is a fixed exact-integer function of the symbol sequence, mirrored by
   harness/impl/models.py (PosCoded):
       F(x, a, t) = SUM_p (x[p]+1) * (p*p + t)  +  t * (x[1]+1) * (x[L]+1)  +  a * (t+1)        (p 1-based, t 0-based)
   It separates every (character, position) pair and has an interaction term, so a mis-indexed mutant shows.
   Output 1 has T1 targets; for tuple models output 2 has T2 = 4 values laid out as a 2x2 trailing block, F(x, a, t+7). *)
EXTENDS Integers, Sequences, FiniteSets, TLC

RECURSIVE SumF(_, _, _)
SumF(x, t, p) == IF p = 0 THEN 0 ELSE (x[p] + 1) * (p * p + t) + SumF(x, t, p - 1)
F(x, a, t) == SumF(x, t, Len(x)) + t * (x[1] + 1) * (x[Len(x)] + 1) + a * (t + 1)

Mut(x, c, p) == [q \in 1..Len(x) |-> IF q = p THEN c ELSE x[q]]         \* p 1-based, c a symbol
EndOf(x, end) == IF end >= 0 THEN end ELSE Len(x) + 1 + end           \* the API's negative `end`
WindowOK(x, start, end) == 0 <= start /\ start < EndOf(x, end) /\ EndOf(x, end) <= Len(x)

ArgOf(c, n) == IF c.args = <<>> THEN 0 ELSE c.args[n]
Y0(c, T, off) == [n \in 1..Len(c.x) |-> [t \in 1..T |-> F(c.x[n], ArgOf(c, n), t - 1 + off)]]
\* yhat[n][character][position - start][target]
YHat(c, T, off) ==
    LET s == c.start e == EndOf(c.x[1], c.end) IN
    [n \in 1..Len(c.x) |-> [ch \in 1..c.A |-> [q \in 1..(e - s) |-> [t \in 1..T |->
        F(Mut(c.x[n], ch - 1, s + q), ArgOf(c, n), t - 1 + off)]]]]

\* attribution, scaled by A * |targets| so that it stays integral:
\*   d = yhat - y0;  d - mean over characters;  mean over the selected targets;  masked by the observed character
Targets(c) == IF c.tlo = -1 THEN 1..c.T ELSE (c.tlo + 1)..c.thi        \* -1: target=None (all); else slice [tlo, thi) or int
RECURSIVE SumSet(_, _)
SumSet(f, S) == IF S = {} THEN 0 ELSE LET v == CHOOSE v \in S : TRUE IN f[v] + SumSet(f, S \ {v})
AttrScaled(c) ==
    LET y0 == Y0(c, c.T, 0) yh == YHat(c, c.T, 0) s == c.start e == EndOf(c.x[1], c.end) TS == Targets(c) IN
    [n \in 1..Len(c.x) |-> [ch \in 1..c.A |-> [q \in 1..(e - s) |->
        LET d(k, t) == yh[n][k][q][t] - y0[n][t]
            val == SumSet([t \in TS |-> c.A * d(ch, t) - SumSet([k \in 1..c.A |-> d(k, t)], 1..c.A)], TS)
        IN IF c.hyp \/ c.x[n][s + q] = ch - 1 THEN val ELSE 0]]]

\* models with a second trailing output dimension U (c.U = 2): entry [t][uu] = F(x, a, (t-1) + 10*(uu-1)); the attribution selects
\* targets on the FIRST trailing dimension and averages over everything after it, scaled by A * |targets| * U
AttrScaledU(c) ==
    LET s == c.start e == EndOf(c.x[1], c.end) TS == Targets(c)
        Fv(xx, n, t, uu) == F(xx, ArgOf(c, n), (t - 1) + 10 * (uu - 1)) IN
    [n \in 1..Len(c.x) |-> [ch \in 1..c.A |-> [q \in 1..(e - s) |->
        LET d(k, t, uu) == Fv(Mut(c.x[n], k - 1, s + q), n, t, uu) - Fv(c.x[n], n, t, uu)
            val == SumSet([t \in TS |-> SumSet([uu \in 1..c.U |-> c.A * d(ch, t, uu) - SumSet([k \in 1..c.A |-> d(k, t, uu)], 1..c.A)], 1..c.U)], TS)
        IN IF c.hyp \/ c.x[n][s + q] = ch - 1 THEN val ELSE 0]]]
\* c = [x, A, args, start, end, bs, out, T, U, tlo, thi, hyp, raw]
ISMExpected(c) ==
    IF ~WindowOK(c.x[1], c.start, c.end) THEN [zone |-> "either", y0 |-> <<>>, yhat |-> <<>>, y0b |-> <<>>, yhatb |-> <<>>, attr |-> <<>>]
    ELSE IF c.raw THEN
        [zone |-> "accept", y0 |-> Y0(c, c.T, 0), yhat |-> YHat(c, c.T, 0),
         y0b |-> IF c.out = "tuple" THEN Y0(c, 4, 7) ELSE <<>>, yhatb |-> IF c.out = "tuple" THEN YHat(c, 4, 7) ELSE <<>>,
         attr |-> <<>>]
    ELSE [zone |-> "accept", y0 |-> <<>>, yhat |-> <<>>, y0b |-> <<>>, yhatb |-> <<>>, attr |-> IF c.U = 1 THEN AttrScaled(c) ELSE AttrScaledU(c)]
=============================================================================

SPECIFICATION Spec
CONSTANTS
  MaxN = 6
  MaxB = 8
INVARIANT WindowsOK
INVARIANT Partition
INVARIANT EvalNoGrad
INVARIANT GradRestored
INVARIANT Rejected
PROPERTY Finishes
CHECK_DEADLOCK FALSE

----------------------------- MODULE Codec_Trace -----------------------------
(* C15 trace validation with CodecOps. *)
EXTENDS CodecOps, Json, IOUtils
Trace == ndJsonDeserialize(IOEnv.TRACE_FILE)
VARIABLES l, bad
Verdict(e) ==
    LET ex == Expected(e) IN
    IF ex.zone = "reject" /\ e.st # "err" THEN "accepted a character outside alphabet and ignore (or overlapping sets)"
    ELSE IF ex.zone = "accept" /\ e.st # "ok" THEN "raised on a valid input"
    ELSE IF e.st = "ok" /\ ~e.valid THEN "result is not a valid encoding of the requested dtype / shape"
    ELSE IF e.st = "ok" /\ e.y # ex.y THEN "result differs from the specified conversion"
    ELSE ""
Init == l = 1 /\ bad = <<>>
Next == /\ l <= Len(Trace) /\ l' = l + 1
        /\ LET v == Verdict(Trace[l]) IN bad' = IF v = "" THEN bad ELSE Append(bad, <<Trace[l].id, v>>)
Spec == Init /\ [][Next]_<<l, bad>>
AtEnd == l = Len(Trace) + 1 => JsonSerialize(IOEnv.OUT_FILE, [consumed |-> l - 1, bad |-> bad])
=============================================================================

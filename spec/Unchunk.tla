-------------------------------- MODULE Unchunk --------------------------------
(* C15 design model of the ALGORITHM in utils.unchunk: with s = overlap \div 2 and e = overlap - s, the pieces
       1 chunk :  the chunk itself                                  (SingleRule = "whole", repaired)
                  the chunk without its first s and last e positions (SingleRule = "trim", as found)
       2 chunks:  chunk1 without its last e, chunk2 without its first s
       k chunks:  chunk1 without its last e, every inner chunk without first s and last e, last chunk without first s
   are concatenated.  Theorem: the result is exactly the covered prefix of the sequence (CodecOps!Unchunk), for every
   size, overlap < size and number of chunks.                                                                          *)
EXTENDS CodecOps
CONSTANTS MaxSize, MaxChunks, SingleRule
VARIABLES size, ov, k, pc
vars == <<size, ov, k, pc>>
Init == /\ size \in 1..MaxSize /\ ov \in 0..(MaxSize - 1) /\ ov < size /\ k \in 1..MaxChunks /\ pc = "check"
Next == pc = "check" /\ pc' = "done" /\ UNCHANGED <<size, ov, k>>
Spec == Init /\ [][Next]_vars
Len0 == size + (k - 1) * (size - ov)
X == [q \in 1..Len0 |-> q]
Ch == Chunk1(X, size, ov)
S0 == ov \div 2
E0 == ov - S0
DropLast(c, n) == SubSeq(c, 1, Len(c) - n)
DropFirst(c, n) == SubSeq(c, n + 1, Len(c))
RECURSIVE Inner(_, _)
Inner(j, hi) == IF j > hi THEN <<>> ELSE DropLast(DropFirst(Ch[j], S0), E0) \o Inner(j + 1, hi)
Assembled ==
    IF ov = 0 THEN Concat(Ch, 1)
    ELSE IF k = 1 THEN (IF SingleRule = "whole" THEN Ch[1] ELSE DropLast(DropFirst(Ch[1], S0), E0))
    ELSE IF k = 2 THEN DropLast(Ch[1], E0) \o DropFirst(Ch[2], S0)
    ELSE DropLast(Ch[1], E0) \o Inner(2, k - 1) \o DropFirst(Ch[k], S0)
ReassemblesCoveredPrefix == Len(Ch) = k /\ Assembled = Unchunk(<<X>>, size, ov)[1]
=============================================================================

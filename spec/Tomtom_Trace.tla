----------------------------- MODULE Tomtom_Trace -----------------------------
(* C13 trace validation.  What TomtomSched.tla guarantees (ResultDependsOnQueryOnly) is observable as: the row returned for
   a query is a function of (query, target set, configuration) only.  `memo` is state: the first digest seen for a key --
   normally from the query's SOLO run on one thread -- must be reproduced bit-identically by every later run, whatever the
   thread count, the co-processed queries (shorter or longer), their order and duplicates.
   Events:  row     [qkey, dig, threads, pos, len]        one query's five result fields, digested bitwise
            select  [n, full, idx, sel, fields_same]       an n_nearest call: dense ranks of the full row's p-values, the
                                                          returned target indices and the ranks of the returned p-values   *)
EXTENDS Integers, Sequences, FiniteSets, TLC, Json, IOUtils
Trace == ndJsonDeserialize(IOEnv.TRACE_FILE)
VARIABLES l, bad, memo
SelectReason(e) ==
    IF Len(e.idx) # e.n \/ Len(e.sel) # e.n THEN "n_nearest did not return n entries"
    ELSE IF \E j, k \in 1..e.n : j < k /\ e.idx[j] = e.idx[k] THEN "a target is returned twice"
    ELSE IF \E j \in 1..e.n : e.idx[j] < 0 \/ e.idx[j] >= Len(e.full) THEN "a returned index is not a target"
    ELSE IF \E j \in 1..e.n : e.sel[j] # e.full[e.idx[j] + 1] THEN "a returned p-value is not the p-value of the returned index"
    ELSE IF \E j \in 1..(e.n - 1) : e.sel[j] > e.sel[j + 1] THEN "returned p-values are not in ascending order"
    ELSE IF \E t \in 1..Len(e.full) : (\A j \in 1..e.n : e.idx[j] # t - 1) /\ (\E j \in 1..e.n : e.full[t] < e.sel[j])
         THEN "a target with a smaller p-value than a returned one was left out"
    ELSE IF ~e.fields_same THEN "score / offset / overlap / strand of a returned target differ from the full row"
    ELSE ""
Verdict(e) ==
    IF e.ev = "select" THEN SelectReason(e)
    ELSE IF e.st # "ok" THEN "tomtom raised"
    ELSE IF e.qkey \in DOMAIN memo /\ memo[e.qkey] # e.dig
         THEN "result of a query depends on thread count, co-processed queries or order"
    ELSE ""
Init == l = 1 /\ bad = <<>> /\ memo = <<>>
Next == /\ l <= Len(Trace) /\ l' = l + 1
        /\ LET e == Trace[l] v == Verdict(e) IN
             /\ bad' = IF v = "" THEN bad ELSE Append(bad, <<e.id, v>>)
             /\ memo' = IF e.ev = "row" /\ e.st = "ok" /\ e.qkey \notin DOMAIN memo THEN memo @@ (e.qkey :> e.dig) ELSE memo
Spec == Init /\ [][Next]_<<l, bad, memo>>
AtEnd == l = Len(Trace) + 1 => JsonSerialize(IOEnv.OUT_FILE, [consumed |-> l - 1, bad |-> bad])
=============================================================================

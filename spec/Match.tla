-------------------------------- MODULE Match --------------------------------
(* C17: the GC-bin allocation loop of extract_matching_loci, one action per loop step.
   Exact matching first; then, for every bin from the highest down that still has unmatched loci, background is taken
   from the bins at distance 0, 1, 2, ... above and below.  SpillToZero = FALSE is the as-found guard `idx > 0`, which never
   takes background from bin 0 when spilling downwards: loci stay unmatched while eligible background remains (mutant). *)
EXTENDS MatchOps
CONSTANTS NB, MaxC, SpillToZero
VARIABLES loci0, bg0, loci, bg, matched, pc, i, off, side
vars == <<loci0, bg0, loci, bg, matched, pc, i, off, side>>
Bins == 1..NB

Init == /\ loci0 \in [Bins -> 0..MaxC] /\ bg0 \in [Bins -> 0..MaxC]
        /\ loci = loci0 /\ bg = bg0 /\ matched = [b \in Bins |-> 0]
        /\ pc = "exact" /\ i = NB /\ off = 0 /\ side = "up"
Exact == /\ pc = "exact"
         /\ matched' = [b \in Bins |-> Min2(bg[b], loci[b])]
         /\ bg' = [b \in Bins |-> bg[b] - Min2(bg[b], loci[b])]
         /\ loci' = [b \in Bins |-> loci[b] - Min2(bg[b], loci[b])]
         /\ pc' = "outer" /\ UNCHANGED <<loci0, bg0, i, off, side>>
Outer == /\ pc = "outer"
         /\ IF i < 1 THEN pc' = "done" /\ UNCHANGED <<i, off, side>>
            ELSE IF loci[i] = 0 THEN i' = i - 1 /\ UNCHANGED <<pc, off, side>>
            ELSE pc' = "spill" /\ off' = 0 /\ side' = "up" /\ UNCHANGED i
         /\ UNCHANGED <<loci0, bg0, loci, bg, matched>>
Take(idx) == LET cnt == Min2(bg[idx], loci[i]) IN
             /\ bg' = [bg EXCEPT ![idx] = @ - cnt] /\ loci' = [loci EXCEPT ![i] = @ - cnt]
             /\ matched' = [matched EXCEPT ![idx] = @ + cnt]
Spill == /\ pc = "spill"
         /\ IF off >= NB THEN /\ pc' = "outer" /\ i' = i - 1 /\ UNCHANGED <<loci, bg, matched, off, side>>
            ELSE IF side = "up"
              THEN /\ IF i + off <= NB THEN Take(i + off) ELSE UNCHANGED <<loci, bg, matched>>
                   /\ side' = "upcheck" /\ UNCHANGED <<pc, i, off>>
            ELSE IF side = "upcheck"
              THEN /\ IF loci[i] = 0 THEN pc' = "outer" /\ i' = i - 1 /\ side' = "up" ELSE side' = "down" /\ UNCHANGED <<pc, i>>
                   /\ UNCHANGED <<loci, bg, matched, off>>
            ELSE IF side = "down"
              THEN /\ IF (i - off > 1) \/ (SpillToZero /\ i - off = 1) THEN Take(i - off) ELSE UNCHANGED <<loci, bg, matched>>
                   /\ side' = "downcheck" /\ UNCHANGED <<pc, i, off>>
            ELSE /\ IF loci[i] = 0 THEN pc' = "outer" /\ i' = i - 1 /\ side' = "up" /\ UNCHANGED off
                    ELSE off' = off + 1 /\ side' = "up" /\ UNCHANGED <<pc, i>>
                 /\ UNCHANGED <<loci, bg, matched>>
         /\ UNCHANGED <<loci0, bg0>>
Next == Exact \/ Outer \/ Spill
Spec == Init /\ [][Next]_vars /\ WF_vars(Next)

AsSeq(f) == [b \in 1..NB |-> f[b]]
Conserve == \A b \in Bins : matched[b] + bg[b] = bg0[b]
BoundsAlways == /\ WithinBackground(AsSeq(matched), AsSeq(bg0)) /\ NoMoreThanInputs(AsSeq(matched), AsSeq(loci0))
                /\ (pc # "exact" => AtLeastExact(AsSeq(matched), AsSeq(loci0), AsSeq(bg0)))
FinalOK == pc = "done" => AllocationOK(AsSeq(matched), AsSeq(loci0), AsSeq(bg0))
Terminates == <>(pc = "done")
=============================================================================

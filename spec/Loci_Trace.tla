------------------------------ MODULE Loci_Trace ------------------------------
(* C16 trace validation: recorded extract_loci calls (in-memory and file inputs) explained by LociOps. *)
EXTENDS LociOps, Json, IOUtils
Trace == ndJsonDeserialize(IOEnv.TRACE_FILE)
VARIABLES l, bad
Verdict(e) ==
    IF e.st # "ok" THEN (IF \E j \in DOMAIN Candidates(e) : Zone(e, Candidates(e)[j]) = "keep"
                         THEN "raised although a locus strictly inside its chromosome must be kept" ELSE "")
    ELSE IF ~e.valid THEN "returned tensors are not one-hot / have inconsistent shapes"
    ELSE LET m == Explain(e, e.mem) IN
         IF m # "" THEN "in-memory inputs: " \o m
         ELSE IF e.hasfile THEN (LET f == Explain(e, e.file) IN
                                 IF f # "" THEN "file inputs: " \o f
                                 ELSE IF e.file # e.mem THEN "file and in-memory inputs disagree" ELSE "")
         ELSE ""
Init == l = 1 /\ bad = <<>>
Next == /\ l <= Len(Trace) /\ l' = l + 1
        /\ LET v == Verdict(Trace[l]) IN bad' = IF v = "" THEN bad ELSE Append(bad, <<Trace[l].id, v>>)
Spec == Init /\ [][Next]_<<l, bad>>
AtEnd == l = Len(Trace) + 1 => JsonSerialize(IOEnv.OUT_FILE, [consumed |-> l - 1, bad |-> bad])
=============================================================================

----------------------------- MODULE ShuffleOps -----------------------------
(* C02: relations between the input and the output of ersatz.shuffle / ersatz.dinucleotide_shuffle.
   Sequences are tuples over 0..A-1 (-1 would be an invalid column); regions are [s, e) with 0-based s as in the API. *)
EXTENDS Integers, Sequences, FiniteSets, TLC

RegionEnd(L, end) == IF end >= 0 THEN end ELSE L + 1 + end          \* documented meaning of a negative end
OutsideSame(y, x, s, e) == Len(y) = Len(x) /\ \A q \in 1..Len(x) : (q <= s \/ q > e) => y[q] = x[q]
Valid(y, A) == \A q \in 1..Len(y) : y[q] >= 0 /\ y[q] < A
CountIn(x, v, s, e) == Cardinality({ q \in (s + 1)..e : x[q] = v })
PairsIn(x, a, b, s, e) == Cardinality({ q \in (s + 1)..(e - 1) : x[q] = a /\ x[q + 1] = b })
\* same number of each character inside the region
MonoEquiv(y, x, s, e, A) == /\ OutsideSame(y, x, s, e) /\ Valid(y, A)
                            /\ \A v \in 0..(A - 1) : CountIn(y, v, s, e) = CountIn(x, v, s, e)
\* same number of every ordered pair of adjacent characters inside the region (hence same first and last character)
DinucEquiv(y, x, s, e, A) == /\ OutsideSame(y, x, s, e) /\ Valid(y, A)
                             /\ \A a \in 0..(A - 1), b \in 0..(A - 1) : PairsIn(y, a, b, s, e) = PairsIn(x, a, b, s, e)
                             /\ (e > s => y[s + 1] = x[s + 1] /\ y[e] = x[e])

Zone(e) ==
    LET L == Len(e.x[1]) en == RegionEnd(L, e.end) IN
    IF e.op = "shuffle" THEN (IF e.start >= 0 /\ e.start < en /\ en <= L THEN "accept" ELSE "reject")
    ELSE \* dinucleotide_shuffle slices [start:end], so a negative end also has the slice reading L + end; a raise is only
         \* counted against it when n = 1 and the region has at least 3 positions under BOTH readings
         LET sl == IF e.end >= 0 THEN e.end ELSE L + e.end IN
         (IF e.n = 1 /\ e.start >= 0 /\ sl - e.start >= 3 /\ en <= L THEN "accept" ELSE "either")
Relation(e) ==
    LET L == Len(e.x[1]) en == RegionEnd(L, e.end) IN
    /\ Len(e.y) = Len(e.x)
    /\ \A i \in 1..Len(e.x) : /\ Len(e.y[i]) = e.n
                              /\ \A j \in 1..e.n : IF e.op = "shuffle" THEN MonoEquiv(e.y[i][j], e.x[i], e.start, en, e.A)
                                                   ELSE DinucEquiv(e.y[i][j], e.x[i], e.start, en, e.A)
=============================================================================

SPECIFICATION TraceSpec
CONSTANTS
  MaxN = 0
  MaxB = 0
INVARIANT AtEnd
INVARIANT TWindowsOK
INVARIANT TPartition
CHECK_DEADLOCK FALSE

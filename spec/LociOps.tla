------------------------------- MODULE LociOps -------------------------------
(* C16 (extract_loci): window arithmetic, edge filter, count filter, chromosome filter, cap and round-robin interleave.
   genome   tuple (per chromosome, 0-based index c) of symbol tuples (-1 = N / ignored character)
   signal   position-coded: the value of chromosome c at 0-based position q is 1000 * c + q  (so values decode to coordinates)
   sets     tuple of locus sets, each a tuple of <<chromosome, start, end>>
   A call c = [genome, sets, allowed, inw, outw, jit, minc, maxc, nloci, sig, insig]   (allowed = <<>>: all; -1 = no bound/cap)
   Candidates are visited round-robin: first locus of every set, then the second of every set, ... (sets may be unequal).
   For every kept locus the function must return exactly
       sequence  genome[chrom][mid - inw\div 2 - jit, mid + inw\div 2 + jit + inw%2)
       signal    positions  [mid - outw\div 2 - jit, mid + outw\div 2 + jit + outw%2)
   with mid = start + (end - start)\div 2.
   Zone of a candidate: "omit" if its chromosome is excluded, its expanded window crosses a chromosome end, or the count
   filter fails; "either" if the expanded window only touches an end (the statement allows omission there); else "keep". *)
EXTENDS Integers, Sequences, FiniteSets, TLC

Max2(a, b) == IF a > b THEN a ELSE b
Mid(l) == l[2] + (l[3] - l[2]) \div 2
SigVal(c, q) == 1000 * c + q
\* positions without coverage (NaN in an in-memory array, a missing interval in a bigWig) read as 0.
\* c.gaps: tuple of <<chromosome, lo, hi>> half-open intervals (absent in the enumerated model: no gaps)
GapsOf(c) == IF "gaps" \in DOMAIN c THEN c.gaps ELSE <<>>
InGap(c, ch, q) == \E k \in DOMAIN GapsOf(c) : GapsOf(c)[k][1] = ch /\ GapsOf(c)[k][2] <= q /\ q < GapsOf(c)[k][3]
SigAt(c, ch, q) == IF InGap(c, ch, q) THEN 0 ELSE SigVal(ch, q)
\* round-robin interleave of the sets, skipping exhausted ones
MaxLen(sets) == IF sets = <<>> THEN 0 ELSE LET S == { Len(sets[k]) : k \in DOMAIN sets } IN CHOOSE m \in S : \A v \in S : v <= m
RECURSIVE Interleave(_, _, _)
Interleave(sets, row, k) ==
    IF row > MaxLen(sets) THEN <<>>
    ELSE IF k > Len(sets) THEN Interleave(sets, row + 1, 1)
    ELSE (IF row <= Len(sets[k]) THEN <<sets[k][row]>> ELSE <<>>) \o Interleave(sets, row, k + 1)

\* loci on excluded chromosomes are removed from every set BEFORE the round-robin (so the interleave is over what remains)
AllowedChrom(c, ch) == c.allowed = <<>> \/ \E k \in DOMAIN c.allowed : c.allowed[k] = ch
FilterSets(c) == [k \in DOMAIN c.sets |-> SelectSeq(c.sets[k], LAMBDA l : AllowedChrom(c, l[1]))]
Candidates(c) == Interleave(FilterSets(c), 1, 1)

HalfW(c) == Max2(c.inw \div 2, IF c.sig \/ c.insig THEN c.outw \div 2 ELSE 0)
SeqLo(c, l) == Mid(l) - c.inw \div 2 - c.jit
SeqHi(c, l) == Mid(l) + c.inw \div 2 + c.jit + (c.inw % 2)
SigLo(c, l) == Mid(l) - c.outw \div 2 - c.jit
SigHi(c, l) == Mid(l) + c.outw \div 2 + c.jit + (c.outw % 2)
ChromLen(c, l) == Len(c.genome[l[1] + 1])
\* the region that must lie inside the chromosome: everything that is going to be read
Lo(c, l) == IF c.sig THEN (IF SigLo(c, l) < SeqLo(c, l) THEN SigLo(c, l) ELSE SeqLo(c, l)) ELSE SeqLo(c, l)
Hi(c, l) == IF c.sig THEN Max2(SigHi(c, l), SeqHi(c, l)) ELSE SeqHi(c, l)
RECURSIVE SumRange(_, _, _, _)
SumRange(c, ch, lo, hi) == IF lo >= hi THEN 0 ELSE SigAt(c, ch, lo) + SumRange(c, ch, lo + 1, hi)
Counts(c, l) == SumRange(c, l[1], SigLo(c, l), SigHi(c, l))
Zone(c, l) ==
    IF c.allowed # <<>> /\ ~(\E k \in DOMAIN c.allowed : c.allowed[k] = l[1]) THEN "omit"
    ELSE IF Lo(c, l) < 0 \/ Hi(c, l) > ChromLen(c, l) THEN "omit"                      \* crosses an end
    ELSE IF c.sig /\ ((c.minc >= 0 /\ Counts(c, l) < c.minc) \/ (c.maxc >= 0 /\ Counts(c, l) > c.maxc)) THEN "omit"
    ELSE IF Mid(l) - HalfW(c) - c.jit <= 0 \/ Mid(l) + HalfW(c) + c.jit + 1 >= ChromLen(c, l) THEN "either"   \* touches an end
    ELSE "keep"
SeqOf(c, l) == SubSeq(c.genome[l[1] + 1], SeqLo(c, l) + 1, SeqHi(c, l))
SigOf(c, l) == [q \in 1..(SigHi(c, l) - SigLo(c, l)) |-> SigAt(c, l[1], SigLo(c, l) + q - 1)]
InSigOf(c, l) == [q \in 1..(SeqHi(c, l) - SeqLo(c, l)) |-> SigAt(c, l[1], SeqLo(c, l) + q - 1)]

\* r = [seqs, sigs, insigs]: is it what a correct extract_loci may return?
RECURSIVE Match(_, _, _, _)
Match(c, cands, r, k) ==      \* k = next result row to explain; returns the failing clause or ""
    IF cands = <<>> THEN (IF k > Len(r.seqs) THEN "" ELSE "more rows than loci that may be kept")
    ELSE LET l == Head(cands) z == Zone(c, l) IN
         IF c.nloci >= 0 /\ k > c.nloci THEN (IF k > Len(r.seqs) THEN "" ELSE "more rows than n_loci")
         ELSE IF z # "omit" /\ k <= Len(r.seqs) /\ r.seqs[k] = SeqOf(c, l)
                 /\ (c.sig => r.sigs[k] = SigOf(c, l)) /\ (c.insig => r.insigs[k] = InSigOf(c, l))
              THEN (LET a == Match(c, Tail(cands), r, k + 1) IN
                    \* a candidate that only TOUCHES an end may also have been omitted while the row belongs to a later locus with
                    \* the same bases (short windows over a 4-letter alphabet coincide): try that explanation too
                    IF a = "" \/ z = "keep" THEN a
                    ELSE LET b == Match(c, Tail(cands), r, k) IN IF b = "" THEN "" ELSE a)
         ELSE IF z = "keep" THEN
              (IF k > Len(r.seqs) THEN "a locus strictly inside its chromosome was omitted"
               ELSE "a row is not the window of the next kept locus (wrong bases / signal / order)")
         ELSE Match(c, Tail(cands), r, k)
Explain(c, r) == Match(c, Candidates(c), r, 1)
\* the specified result when every "either" candidate is kept / omitted (used by the enumerated lane)
RECURSIVE Select(_, _, _, _)
Select(c, cands, keepEither, n) ==
    IF cands = <<>> \/ (c.nloci >= 0 /\ n >= c.nloci) THEN <<>>
    ELSE LET l == Head(cands) z == Zone(c, l) IN
         IF z = "keep" \/ (z = "either" /\ keepEither) THEN <<l>> \o Select(c, Tail(cands), keepEither, n + 1)
         ELSE Select(c, Tail(cands), keepEither, n)
=============================================================================

------------------------------ MODULE DeepLift ------------------------------
(* C04 / C05 design model: DeepLIFT on an exhaustively enumerated tiny family of networks, one action per layer pass.
   Family: one-hot input (A = 2, length Len2) -> Flatten -> Linear(2*Len2 -> 1; every weight in WSet, bias in BSet)
           -> activation in Acts (or none) -> Linear(1 -> 1; weight in VSet, bias 1), every input x and every reference.
   Actions: Fwd (one layer, example and reference together), then Bwd (one layer, from the output down), then Done.
   Invariants, evaluated in every state:
     SumToDeltaInv   after each backward step the multipliers m of layer k satisfy
                     SUM_u m[u] * (ax_k[u] - ar_k[u]) = out(x) - out(ref)          -- completeness at every layer (C04)
     AffineClosedForm  without an activation the projected attribution of the observed character at position p is
                     SUM_c W[c,p] * (x - ref)[c,p] (times the output weight), independent of the biases       (C05)   *)
EXTENDS DeepLiftOps
CONSTANTS Len2, WSet, BSet, VSet, Acts

Lin(W, b) == [k |-> "linear", W |-> W, b |-> b, ws |-> <<1, 1>>]
ActL(g) == [k |-> "act", g |-> g, slope |-> <<1, 4>>, lam |-> 1]
FlatL == [k |-> "flatten"]
NetOf(w, b, g, v) == IF g = "none" THEN <<FlatL, Lin(<<w>>, <<b>>), Lin(<< <<v>> >>, <<1>>)>>
                     ELSE <<FlatL, Lin(<<w>>, <<b>>), ActL(g), Lin(<< <<v>> >>, <<1>>)>>

VARIABLES layers, x, ref, pc, k, AX, AR, m, wv
vars == <<layers, x, ref, pc, k, AX, AR, m, wv>>

Init == /\ \E w \in [1..(2 * Len2) -> WSet], b \in BSet, g \in Acts \cup {"none"}, v \in VSet :
              layers = NetOf(w, b, g, v) /\ wv = <<w, v, g>>
        /\ x \in [1..Len2 -> 0..1] /\ ref \in [1..Len2 -> 0..1]
        /\ pc = "fwd" /\ k = 1 /\ AX = <<OneHot(x, 2)>> /\ AR = <<OneHot(ref, 2)>> /\ m = T1(<<ROne>>)
Fwd == /\ pc = "fwd" /\ k <= Len(layers)
       /\ AX' = Append(AX, Apply(layers[k], AX[k])) /\ AR' = Append(AR, Apply(layers[k], AR[k]))
       /\ k' = k + 1 /\ pc' = IF k = Len(layers) THEN "bwd" ELSE "fwd"
       /\ UNCHANGED <<layers, x, ref, m, wv>>
Bwd == /\ pc = "bwd" /\ k > 1
       /\ m' = Back(layers[k - 1], AX[k - 1], AR[k - 1], m)
       /\ k' = k - 1 /\ pc' = IF k = 2 THEN "done" ELSE "bwd"
       /\ UNCHANGED <<layers, x, ref, AX, AR, wv>>
Next == Fwd \/ Bwd
Spec == Init /\ [][Next]_vars /\ WF_vars(Next)

Delta == RSub(AX[Len(layers) + 1].v[1], AR[Len(layers) + 1].v[1])
\* in a backward state m is the multiplier of layer k's input (= AX[k])
SumToDeltaInv == (pc \in {"bwd", "done"} /\ k <= Len(layers)) => SumToDelta(m, AX[k], AR[k], Delta)
AffineClosedForm == (pc = "done" /\ wv[3] = "none") =>
    LET H == Project(m.v, OneHot(ref, 2).v, 2) IN
    \A p \in 1..Len2 :
        H[x[p] + 1][p] = RSum([c \in 1..2 |->
            RMul(RInt(wv[2] * wv[1][(c - 1) * Len2 + p]),
                 RSub(IF x[p] = c - 1 THEN ROne ELSE RZero, IF ref[p] = c - 1 THEN ROne ELSE RZero))])
Terminates == <>(pc = "done")
=============================================================================

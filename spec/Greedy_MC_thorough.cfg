SPECIFICATION Spec
CONSTANTS
  Problems <- ProblemsTA
  LastPos = TRUE
INVARIANT NeverWorse
INVARIANT LossConsistent
INVARIANT ValidSeq
INVARIANT OnlyInWindows
INVARIANT IterBound
PROPERTY Monotone
PROPERTY Terminates
CHECK_DEADLOCK FALSE

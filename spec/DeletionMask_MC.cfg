SPECIFICATION Spec
CONSTANTS
  Len0 = 5
  NEx = 2
  MaxDel = 3
  KeepRule = "zero"
INVARIANT KeepsWhatTheDefinitionKeeps
INVARIANT SameLoss
PROPERTY Terminates
CHECK_DEADLOCK FALSE

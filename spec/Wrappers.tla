------------------------------- MODULE Wrappers -------------------------------
(* C08 design model: the configurations of the bounded scope (batch shapes, 1-3 outputs, 0-2 args, shuffles, annotations
   whose number differs from the number of outputs, spacing grids, product sizes, batch sizes that do and do not divide).
   Shuffle-based wrappers carry no shuffles here (they are facts logged at run time); their denotation is checked by
   Wrappers_Trace with the same operators.                                                                         *)
EXTENDS WrappersOps
CONSTANTS LenX, MaxN

Pat(l, k) == [q \in 1..l |-> (k * q + k \div 2) % 4]
XB(n) == [i \in 1..n |-> Pat(LenX, i)]
ArgsFor(k, n, base) == IF k = 0 THEN <<>> ELSE [i \in 1..n |-> base + 3 * i]
Call(op, x, x0, a0, a1, mo, mos, start, end, n, grid, ann, out, bs) ==
    [op |-> op, x |-> x, x0 |-> x0, args0 |-> a0, args1 |-> a1, mo |-> mo, mos |-> mos, start |-> start, end |-> end,
     n |-> n, grid |-> grid, ann |-> ann, shuf |-> <<>>, out |-> out, T |-> 2, bs |-> bs]
Outs3 == {"tensor", "tuple", "triple"}
Anns(k, n) == [a \in 1..k |-> << (a - 1) % n, a % 3, (a % 3) + 1 + (a % 2) >>]     \* k annotations over n examples

VARIABLES pc, call, exp
vars == <<pc, call, exp>>

IsCall(c) ==
    \/ \E n \in 1..MaxN, out \in Outs3, na \in 0..2, st \in {NoStart, 0, LenX - 2}, per \in BOOLEAN :
         LET mb == IF per /\ n > 1 THEN [i \in 1..n |-> <<(i + 1) % 4, i % 4>>] ELSE << <<3, 1>> >> IN
         c = Call("marginalize", XB(n), <<>>, ArgsFor(IF na >= 1 THEN 1 ELSE 0, n, 1), ArgsFor(IF na = 2 THEN 1 ELSE 0, n, 2),
                  mb, <<>>, st, 0, 0, <<>>, <<>>, out, 32)
    \/ \E n \in 1..MaxN, out \in Outs3, na \in 0..2, ns \in 1..3, bs \in {2, 32} :
         c = Call("ablate", XB(n), <<>>, ArgsFor(IF na >= 1 THEN 1 ELSE 0, n, 1), ArgsFor(IF na = 2 THEN 1 ELSE 0, n, 2),
                  <<>>, <<>>, 1, LenX - 1, ns, <<>>, <<>>, out, bs)
    \/ \E n \in 1..MaxN, out \in Outs3, na \in 0..1, g \in 1..3, nm \in 2..3, st \in {NoStart, 0} :
         LET mos == [k \in 1..nm |-> << <<k % 4>> >>]
             grid == [s \in 1..g |-> [k \in 1..(nm - 1) |-> (s + k) % 2]] IN
         c = Call("space", XB(n), <<>>, ArgsFor(na, n, 1), <<>>, <<>>, mos, st, 0, 0, grid, <<>>, out, 32)
    \/ \E n \in 1..MaxN, n0 \in 1..2, out \in Outs3, k \in 1..4, na \in 0..1 :
         c = Call("marginalize_annotations", XB(n), [i \in 1..n0 |-> Pat(LenX, i + 5)], ArgsFor(na, n0, 1), <<>>, <<>>, <<>>,
                  NoStart, 0, 0, <<>>, Anns(k, n), out, 32)
    \/ \E n \in 1..MaxN, out \in Outs3, k \in 1..4, ns \in 1..3 :
         c = Call("ablate_annotations", XB(n), <<>>, <<>>, <<>>, <<>>, <<>>, 0, 0, ns, <<>>,
                  [a \in 1..k |-> << (a - 1) % n, a % 2, (a % 2) + 3 >>], out, 32)
    \/ \E n \in 1..MaxN, out \in Outs3, k0 \in 1..3, two \in BOOLEAN, bs \in {1, 2, 4, 5, 32} :
         c = Call("apply_pairwise", XB(n), <<>>, [j \in 1..k0 |-> 2 * j + 1], IF two THEN [j \in 1..k0 |-> 7 - j] ELSE <<>>,
                  <<>>, <<>>, 0, 0, 0, <<>>, <<>>, out, bs)
    \/ \E n \in 1..MaxN, out \in Outs3, k0 \in 1..3, k1 \in 0..3, bs \in {1, 2, 4, 5, 32} :
         c = Call("apply_product", XB(n), <<>>, [j \in 1..k0 |-> 2 * j + 1], [j \in 1..k1 |-> 7 - j],
                  <<>>, <<>>, 0, 0, 0, <<>>, <<>>, out, bs)

Deterministic(c) == c.op \notin {"ablate", "ablate_annotations"}
Init == pc = "call" /\ IsCall(call) /\ exp = Res("none", <<>>, <<>>)
Return == /\ pc = "call" /\ pc' = "ret" /\ UNCHANGED call
          /\ exp' = IF Deterministic(call) THEN Expected(call) ELSE Res("fact", <<>>, <<>>)
Spec == Init /\ [][Return]_vars

Ret == pc = "ret" /\ exp.zone = "accept"
\* outputs and annotations are different axes: every output has one row per annotation
AnnotationAxis == (Ret /\ call.op = "marginalize_annotations") =>
    /\ Len(exp.after) = NOut(call.out)
    /\ \A o \in 1..Len(exp.after) : Len(exp.after[o]) = Len(call.ann) /\ \A a \in 1..Len(call.ann) : Len(exp.after[o][a]) = Len(call.x0)
\* product entries differ whenever the denoted inputs differ (F separates its arguments)
ProductSeparates == (Ret /\ call.op = "apply_product" /\ call.args1 # <<>>) =>
    \A i \in 1..Nx(call), j1, j2 \in 1..Len(call.args0), k1, k2 \in 1..Len(call.args1) :
        (<<j1, k1>> # <<j2, k2>>) => exp.after[1][i][j1][k1] # exp.after[1][i][j2][k2]
\* substituting changes only the fingerprint of the substituted example (per-example motifs do not leak)
MargShape == (Ret /\ call.op = "marginalize") => \A o \in 1..Len(exp.after) : Len(exp.after[o]) = Nx(call)
=============================================================================

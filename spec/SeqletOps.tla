------------------------------ MODULE SeqletOps ------------------------------
(* C19: well-formedness of the rows returned by recursive_seqlets / tfmodisco_seqlets on an integer-valued track.
   x      tuple (examples) of tuples of integers (the attribution track; integer-valued so that sums are exact)
   rows   tuple of [ex, start, end, attr, pok, rank]: example index, span [start, end) (0-based), reported attribution,
          whether the reported p-value is <= threshold, and the dense rank of the p-value among the returned rows        *)
EXTENDS Integers, Sequences, FiniteSets, TLC
RECURSIVE SumRange(_, _, _)
SumRange(t, lo, hi) == IF lo >= hi THEN 0 ELSE t[lo + 1] + SumRange(t, lo + 1, hi)       \* sum of t over [lo, hi), 0-based
Abs(v) == IF v < 0 THEN -v ELSE v
InExample(c, r) == r.ex >= 0 /\ r.ex < Len(c.x) /\ 0 <= r.start /\ r.start < r.end /\ r.end <= Len(c.x[1])
\* recursive caller: some raw span [s0, e0) with minlen <= e0 - s0 <= maxlen extended by `flanks` and clipped gives [start, end)
RawLenOK(c, r) ==
    LET Ln == Len(c.x[1])
        S0 == IF r.start > 0 THEN {r.start + c.flanks} ELSE 0..c.flanks
        E0 == IF r.end < Ln THEN {r.end - c.flanks} ELSE (Ln - c.flanks)..Ln
    IN \E s0 \in S0, e0 \in E0 : e0 - s0 >= c.minlen /\ e0 - s0 <= c.maxlen
RecRowReason(c, r) ==
    IF ~InExample(c, r) THEN "a seqlet does not lie inside its example"
    ELSE IF ~RawLenOK(c, r) THEN "length (before additional flanks) is outside [min_seqlet_len, max_seqlet_len]"
    ELSE IF r.attr # SumRange(c.x[r.ex + 1], r.start, r.end) THEN "reported attribution is not the sum of the input over [start, end)"
    ELSE IF ~r.pok THEN "reported p-value is above the threshold"
    ELSE ""
ModRowReason(c, r) ==
    IF ~InExample(c, r) THEN "a seqlet does not lie inside its example"
    ELSE IF r.end - r.start # c.window + 2 * c.flank THEN "span is not window_size + 2*flank long"
    ELSE IF r.attr # SumRange(c.x[r.ex + 1], r.start + c.flank, r.end - c.flank) THEN "reported attribution is not the input sum over the central window"
    ELSE ""
Sorted(rows) == \A j \in 1..(Len(rows) - 1) : rows[j].rank <= rows[j + 1].rank
TooClose(c, rows) == \E j, k \in DOMAIN rows : j < k /\ rows[j].ex = rows[k].ex /\ Abs(rows[j].start - rows[k].start) < c.window \div 2 + c.flank
FirstBad(c, rows, R(_, _)) ==
    LET B == { j \in DOMAIN rows : R(c, rows[j]) # "" } IN
    IF B = {} THEN "" ELSE R(c, rows[CHOOSE j \in B : \A k \in B : j <= k])
Verdict(c) ==
    IF ~c.same THEN "the attribution tensor was modified"
    ELSE IF c.st # "ok" THEN ""              \* the statements are about returned rows; a raise on a degenerate track is counted, not judged
    ELSE IF c.op = "recursive" THEN
         (IF FirstBad(c, c.rows, RecRowReason) # "" THEN FirstBad(c, c.rows, RecRowReason)
          ELSE IF ~Sorted(c.rows) THEN "table is not sorted by ascending p-value" ELSE "")
    ELSE (IF FirstBad(c, c.rows, ModRowReason) # "" THEN FirstBad(c, c.rows, ModRowReason)
          ELSE IF TooClose(c, c.rows) THEN "two seqlets of one example start closer than the suppression radius" ELSE "")
=============================================================================

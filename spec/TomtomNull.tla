------------------------------- MODULE TomtomNull -------------------------------
(* C14 design model of the ALGORITHM in tomtom._p_value_backgrounds, one action per loop iteration of the code:
     phase "A"   A[i][j] = distribution of the complete score of an alignment that covers query columns i..j
                 (convolution of the per-column histograms f[i..j], shifted by Unal * (number of unaligned query columns))
     phase "B1"  B[t], t < nq : maximum over the overhangs of lengths 1..t on both sides (built incrementally)
     phase "B2"  B[t], t >= nq: B[t-1] maximised with one more full-length alignment
     phase "B3"  B[t], t < nq : rebuilt for targets shorter than the query (all internal spans of length t and the overhangs)
   where "maximum" is the distribution of the maximum of independent variables (the code's _pairwise_max).
   The THEOREM checked by TLC on every small instance: when the algorithm finishes, for every target length t the CDF held in
   B[t] equals the product over all relative offsets of the brute-force CDF of that offset's score (TomtomScoreOps!CdfAt) --
   i.e. the code's recursion computes exactly the null distribution the property defines.
   IncludeZeroBin = FALSE is the as-found loop `for l in range(1, n_bins+1)`: the mass of similarity 0 is never copied and
   the theorem fails (spec-level mutant).  Indices are 0-based as in the code; distributions are functions 0..N -> Rat.      *)
EXTENDS TomtomScoreOps
CONSTANTS MaxQ, NCols, NBins, TMax, IncludeZeroBin
VARIABLES G, u, nq, A, B, pc, ia, ja, tb, sub
vars == <<G, u, nq, A, B, pc, ia, ja, tb, sub>>

N == NBins * MaxQ + MaxQ                       \* largest score + 1 (Unal <= 1)
Idx == 0..N
ZeroD == [s \in Idx |-> RZero]
Empty == [s \in Idx |-> IF s = 0 THEN <<-1, 1>> ELSE RZero]          \* the code's sentinel B[.] = -1
F(j, l) == <<Cardinality({ c \in 1..NCols : G[c][j + 1] = l }), NCols>>        \* histogram of query column j (0-based)
Bins == IF IncludeZeroBin THEN 0..NBins ELSE 1..NBins
Shift(i, j) == u * (nq - j + i - 1)
\* one (i, j) step of the span-pmf loop
SpanPmf(i, j) ==
    IF i = j THEN [s \in Idx |-> IF s - Shift(i, j) \in Bins THEN Norm(F(j, s - Shift(i, j))[1], NCols) ELSE RZero]
    ELSE [s \in Idx |-> RSum([l \in 1..(NBins + 1) |->
              LET lv == l - 1 k == s - lv - Shift(i, j) IN
              IF lv \in Bins /\ k >= 0 /\ k + Shift(i, j) + u <= N
              THEN RMul(A[<<i, j - 1>>][k + Shift(i, j) + u], Norm(F(j, lv)[1], NCols)) ELSE RZero])]
Csum(d) == [s \in Idx |-> RSum([t \in 1..(s + 1) |-> d[t - 1]])]
PMax(x, y) == IF x[0] = <<-1, 1>> THEN y
              ELSE LET X == Csum(x) Y == Csum(y) IN
                   [s \in Idx |-> RSub(RAdd(RMul(x[s], Y[s]), RMul(y[s], X[s])), RMul(x[s], y[s]))]
Minimum(a, b) == IF a < b THEN a ELSE b
Lim == Minimum(nq, TMax + 1)

Init == /\ nq \in 1..MaxQ /\ u \in 0..1
        /\ G \in [1..NCols -> [1..MaxQ -> 0..NBins]]
        /\ A = [p \in {} |-> ZeroD] /\ B = [t \in 0..TMax |-> Empty]
        /\ pc = "A" /\ ia = 0 /\ ja = 0 /\ tb = 1 /\ sub = 0
StepA == /\ pc = "A"
         /\ A' = A @@ (<<ia, ja>> :> SpanPmf(ia, ja))
         /\ IF ja < nq - 1 THEN ja' = ja + 1 /\ UNCHANGED <<ia, pc, tb>>
            ELSE IF ia < nq - 1 THEN ia' = ia + 1 /\ ja' = ia + 1 /\ UNCHANGED <<pc, tb>>
            ELSE pc' = "B1" /\ tb' = 1 /\ UNCHANGED <<ia, ja>>
         /\ UNCHANGED <<G, u, nq, B, sub>>
StepB1 == /\ pc = "B1"
          /\ IF tb < Lim
             THEN /\ B' = [B EXCEPT ![tb] = PMax(PMax(B[tb - 1], A[<<0, tb - 1>>]), A[<<nq - tb, nq - 1>>])]
                  /\ tb' = tb + 1 /\ UNCHANGED pc
             ELSE /\ pc' = "B2" /\ tb' = nq /\ UNCHANGED B
          /\ UNCHANGED <<G, u, nq, A, ia, ja, sub>>
StepB2 == /\ pc = "B2"
          /\ IF tb <= TMax
             THEN /\ B' = [B EXCEPT ![tb] = PMax(B[tb - 1], A[<<0, nq - 1>>])] /\ tb' = tb + 1 /\ UNCHANGED pc
             ELSE /\ pc' = "B3" /\ tb' = 1 /\ UNCHANGED B
          /\ UNCHANGED <<G, u, nq, A, ia, ja, sub>>
\* B3 rebuilds B[tb] for tb < nq in one step per tb (inner loops folded)
RECURSIVE FoldSpans(_, _, _)
FoldSpans(acc, t, j) == IF j > nq - t THEN acc ELSE FoldSpans(PMax(acc, A[<<j, j + t - 1>>]), t, j + 1)
RECURSIVE FoldOver(_, _, _)
FoldOver(acc, t, j) == IF j > t - 2 THEN acc ELSE FoldOver(PMax(PMax(acc, A[<<0, j>>]), A[<<nq - 1 - j, nq - 1>>]), t, j + 1)
StepB3 == /\ pc = "B3"
          /\ IF tb < Lim
             THEN /\ B' = [B EXCEPT ![tb] = FoldOver(FoldSpans(Empty, tb, 0), tb, 0)] /\ tb' = tb + 1 /\ UNCHANGED pc
             ELSE /\ pc' = "done" /\ UNCHANGED <<B, tb>>
          /\ UNCHANGED <<G, u, nq, A, ia, ja, sub>>
Next == StepA \/ StepB1 \/ StepB2 \/ StepB3
Spec == Init /\ [][Next]_vars /\ WF_vars(Next)

\* ---- the theorem: the recursion computes the null distribution of the definition
Gq == [c \in 1..NCols |-> [q \in 1..nq |-> G[c][q]]]
Ones == [c \in 1..NCols |-> 1]
DefCdf(t, s) == FoldSet(LAMBDA k, acc : RMul(acc, CdfAt(Gq, u, Ones, nq, t, k, s)), ROne, 1..(t + nq - 1))
NullMatchesDefinition == pc = "done" => \A t \in 1..TMax : \A s \in Idx : Csum(B[t])[s] = DefCdf(t, s)
\* every span pmf is a probability distribution (no mass lost) once it has been built
SpanMass == \A p \in DOMAIN A : RSum([s \in 1..(N + 1) |-> A[p][s - 1]]) = ROne
Terminates == <>(pc = "done")
=============================================================================

SPECIFICATION Spec
CONSTANTS
  CL = 16
  MaxWin = 7
INVARIANT InterleaveOK
INVARIANT IdxOrderIsRoundRobin
INVARIANT WindowsInside
INVARIANT WindowLength
CHECK_DEADLOCK FALSE

SPECIFICATION Spec
CONSTANTS
  MaxN = 5
  MaxS = 6
  MaxB = 31
INVARIANT BlockOK
INVARIANT BatchSizes
INVARIANT DoneOK
PROPERTY Terminates
CHECK_DEADLOCK FALSE

SPECIFICATION Spec
CONSTANTS
  MaxN = 3
  MaxS = 4
  MaxB = 13
INVARIANT BlockOK
INVARIANT BatchSizes
INVARIANT DoneOK
PROPERTY Terminates
CHECK_DEADLOCK FALSE

SPECIFICATION Spec
CONSTANTS
  Len2 = 2
  WSet <- W4
  BSet <- B2
  VSet <- V2
  Acts <- ActsT
INVARIANT SumToDeltaInv
INVARIANT AffineClosedForm
PROPERTY Terminates
CHECK_DEADLOCK FALSE

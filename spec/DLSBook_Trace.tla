---------------------------- MODULE DLSBook_Trace ----------------------------
(* C06 trace validation: recorded deep_lift_shap calls are pushed through the ACTIONS of DLSBook.tla.
   Events:  call    [ex, S, B, R, refmode, key]   ex = the example ids passed (any subset / permutation / order)
            ref     [e, seed]                     one call of the reference generator (refmode = "fn")
            forward [x, r, a, a2]                 example ids of the first half, <<example, reference index>> decoded from the
                                                  second half, arg ids of both halves
            return  [st, dig, refs]               per-example result digests (and returned references)
   Fill and Drain are internal (silent) steps.  `memo` is state: the first digest seen for (example id, key) -- key encodes
   seed / reference tensor / flags -- must be reproduced by every later call, whatever its batch size or co-batched examples. *)
EXTENDS DLSBook, Json, IOUtils
Trace == ndJsonDeserialize(IOEnv.TRACE_FILE)
VARIABLES l, bad, cid, ex, R, refmode, key, rk, memo, memoR
tvars == <<vars, l, bad, cid, ex, R, refmode, key, rk, memo, memoR>>
E == Trace[l]
Keep == UNCHANGED <<bad, cid, ex, R, refmode, key, memo, memoR>>

TCall == /\ E.ev = "call" /\ pc \in {"idle", "skip"}
         /\ N' = Len(E.ex) /\ S' = E.S /\ B' = E.B
         /\ i' = 0 /\ Xi' = <<>> /\ rj' = <<>> /\ queue' = <<>> /\ z' = 0
         /\ emitted' = <<>> /\ batches' = <<>> /\ seeds' = <<>> /\ pc' = "fill"
         /\ cid' = E.id /\ ex' = E.ex /\ R' = E.R /\ refmode' = E.refmode /\ key' = E.key /\ rk' = 0
         /\ l' = l + 1 /\ UNCHANGED <<bad, memo, memoR>>
Silent == /\ pc \in {"fill", "drain"} /\ (Fill \/ Drain) /\ UNCHANGED <<l, rk>> /\ Keep
RefReason == IF pc # "flush" THEN "reference generator called outside a batch"
             ELSE IF refmode # "fn" THEN "reference generator called although a reference tensor was given"
             ELSE IF rk >= Len(Xi) THEN "more reference calls than pairs in the batch"
             ELSE IF E.e # ex[Xi[rk + 1] + 1] THEN "reference generated for the wrong example"
             ELSE IF E.seed # R + rj[rk + 1] THEN "seed of shuffle j is not random_state + j"
             ELSE ""
TRef == /\ E.ev = "ref" /\ RefReason = "" /\ rk' = rk + 1 /\ l' = l + 1 /\ UNCHANGED vars /\ Keep
FwdReason == IF pc # "flush" THEN "model called outside a batch"
             ELSE IF refmode = "fn" /\ rk # Len(Xi) THEN "model called before every reference of the batch was generated"
             ELSE IF E.x # [k \in 1..Len(Xi) |-> ex[Xi[k] + 1]] THEN "batch does not hold the next pairs in (example, shuffle) order"
             ELSE IF E.r # [k \in 1..Len(Xi) |-> <<ex[Xi[k] + 1], rj[k]>>] THEN "a reference is not shuffle j of its own example"
             ELSE IF E.wa /\ E.a = <<>> THEN "extra arguments given to the call did not reach the model"
             ELSE IF E.a # <<>> /\ (E.a # E.x \/ E.a2 # E.x) THEN "extra arguments are not matched to their example in both halves"
             ELSE ""
TForward == /\ E.ev = "forward" /\ FwdReason = "" /\ Flush /\ rk' = 0 /\ l' = l + 1 /\ Keep
Digs == [k \in 1..Len(E.dig) |-> <<ex[k], key, E.dig[k]>>]
RetReason == IF pc # "done" THEN "returned before every pair was evaluated"
             ELSE IF E.st # "ok" THEN "raised on a valid call"
             ELSE IF Len(E.dig) # N THEN "wrong number of examples in the result"
             ELSE IF E.refs # <<>> /\ E.refs # [k \in 1..N |-> [j \in 1..S |-> <<ex[k], j - 1>>]] THEN "returned references are not (example, shuffle j) in order"
             ELSE IF \E k \in 1..N : <<ex[k], key>> \in DOMAIN memo /\ memo[<<ex[k], key>>] # E.dig[k]
                  THEN "attribution of an example depends on batch size, co-batched examples or order"
             ELSE ""
TReturn == /\ E.ev = "return" /\ RetReason = ""
           /\ memo' = [p \in DOMAIN memo \cup { <<ex[k], key>> : k \in 1..N } |->
                          IF p \in DOMAIN memo THEN memo[p] ELSE E.dig[CHOOSE k \in 1..N : ex[k] = p[1]]]
           /\ pc' = "idle" /\ l' = l + 1 /\ rk' = 0
           /\ UNCHANGED <<N, S, B, i, Xi, rj, queue, z, emitted, batches, seeds, bad, cid, ex, R, refmode, key, memoR>>
\* observable lane with the REAL dinucleotide_shuffle reference generator: an "obs" event carries, per example, the digest of
\* its attributions and of the references that were used; both must be reproduced under every batching / subset / order
ObsReason == IF E.st # "ok" THEN "raised on a valid call"
             ELSE IF \E k \in DOMAIN E.ex : <<E.ex[k], E.key>> \in DOMAIN memoR /\ memoR[<<E.ex[k], E.key>>] # E.rdig[k]
                  THEN "shuffle j of an example is not the same sequence in every batching"
             ELSE IF \E k \in DOMAIN E.ex : <<E.ex[k], E.key>> \in DOMAIN memo /\ memo[<<E.ex[k], E.key>>] # E.dig[k]
                  THEN "attribution of an example depends on batch size, co-batched examples or order"
             ELSE ""
Upd(m, vals) == [p \in DOMAIN m \cup { <<E.ex[k], E.key>> : k \in DOMAIN E.ex } |->
                    IF p \in DOMAIN m THEN m[p] ELSE vals[CHOOSE k \in DOMAIN E.ex : E.ex[k] = p[1]]]
TObs == /\ E.ev = "obs" /\ pc \in {"idle", "skip"}
        /\ bad' = IF ObsReason = "" THEN bad ELSE Append(bad, <<E.id, ObsReason>>)
        /\ memo' = IF E.st = "ok" THEN Upd(memo, E.dig) ELSE memo
        /\ memoR' = IF E.st = "ok" THEN Upd(memoR, E.rdig) ELSE memoR
        /\ l' = l + 1 /\ UNCHANGED <<vars, cid, ex, R, refmode, key, rk>>
Reason == CASE E.ev = "ref" -> RefReason [] E.ev = "forward" -> FwdReason [] E.ev = "return" -> RetReason [] OTHER -> ""
TBad == /\ pc \notin {"skip", "fill", "drain"} /\ E.ev \notin {"call", "obs"} /\ Reason # ""
        /\ bad' = Append(bad, <<cid, Reason>>) /\ pc' = "skip" /\ l' = l + 1 /\ rk' = 0
        /\ UNCHANGED <<N, S, B, i, Xi, rj, queue, z, emitted, batches, seeds, cid, ex, R, refmode, key, memo, memoR>>
TSkip == /\ pc = "skip" /\ E.ev \notin {"call", "obs"} /\ l' = l + 1 /\ UNCHANGED <<vars, rk>> /\ Keep
TraceNext == l <= Len(Trace) /\ (TCall \/ TObs \/ Silent \/ TRef \/ TForward \/ TReturn \/ TBad \/ TSkip)
TraceInit == /\ N = 0 /\ S = 0 /\ B = 0 /\ i = 0 /\ Xi = <<>> /\ rj = <<>> /\ queue = <<>> /\ z = 0 /\ emitted = <<>>
             /\ batches = <<>> /\ seeds = <<>> /\ pc = "idle"
             /\ l = 1 /\ bad = <<>> /\ cid = 0 /\ ex = <<>> /\ R = 0 /\ refmode = "fn" /\ key = 0 /\ rk = 0 /\ memo = <<>> /\ memoR = <<>>
TraceSpec == TraceInit /\ [][TraceNext]_tvars
AtEnd == l = Len(Trace) + 1 => JsonSerialize(IOEnv.OUT_FILE, [consumed |-> l - 1, bad |-> bad])
TBlockOK == pc \in {"fill", "flush", "drain", "done"} => BlockOK
TDoneOK == DoneOK
=============================================================================

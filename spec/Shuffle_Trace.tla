---------------------------- MODULE Shuffle_Trace ----------------------------
(* C02 trace validation: composition relations, flank identity, validity, input digests, and determinism as STATE:
   `memo` maps a call's argument key (assigned by the driver to identical (input, region, n, seed) tuples) to the first
   result observed; any later event with the same key must carry the same result.                                   *)
EXTENDS ShuffleOps, Json, IOUtils
Trace == ndJsonDeserialize(IOEnv.TRACE_FILE)
VARIABLES l, bad, memo
Verdict(e) ==
    LET z == Zone(e) IN
    IF ~e.same THEN "the input tensor was modified"
    ELSE IF z = "reject" /\ e.st # "err" THEN "accepted a region that leaves the sequence"
    ELSE IF z = "accept" /\ e.st # "ok" THEN "raised on a region inside the sequence"
    ELSE IF e.st = "ok" /\ ~e.valid THEN "output is not a valid one-hot encoding of the input's shape"
    ELSE IF e.st = "ok" /\ ~Relation(e) THEN
         (IF e.op = "shuffle" THEN "character counts inside the region changed, or a position outside it changed"
          ELSE "dinucleotide counts / first / last character inside the region changed, or a position outside it changed")
    ELSE IF e.st = "ok" /\ e.key \in DOMAIN memo /\ memo[e.key] # e.y THEN "result is not a deterministic function of (input, region, n, seed)"
    ELSE ""
Init == l = 1 /\ bad = <<>> /\ memo = <<>>
Next == /\ l <= Len(Trace) /\ l' = l + 1
        /\ LET e == Trace[l] v == Verdict(e) IN
             /\ bad' = IF v = "" THEN bad ELSE Append(bad, <<e.id, v>>)
             /\ memo' = IF e.st = "ok" /\ e.key \notin DOMAIN memo /\ e.key > 0 THEN memo @@ (e.key :> e.y) ELSE memo
Spec == Init /\ [][Next]_<<l, bad, memo>>
AtEnd == l = Len(Trace) + 1 => JsonSerialize(IOEnv.OUT_FILE, [consumed |-> l - 1, bad |-> bad])
=============================================================================

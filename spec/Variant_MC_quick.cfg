SPECIFICATION Spec
CONSTANTS
  MaxLen = 5
  MaxDel = 3
  Alpha = 4
INVARIANT SameLoss
INVARIANT LengthKept
INVARIANT NoLeak
INVARIANT DeletedGone
CHECK_DEADLOCK FALSE

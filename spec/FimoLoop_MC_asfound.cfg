SPECIFICATION Spec
CONSTANTS
  MaxSeq = 4
  LastWindow = FALSE
INVARIANT EveryWindowScored
INVARIANT InBounds
PROPERTY Terminates
CHECK_DEADLOCK FALSE

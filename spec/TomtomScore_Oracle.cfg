SPECIFICATION Spec
CONSTANTS
  DropZeroBin = FALSE
CHECK_DEADLOCK FALSE

------------------------------- MODULE Counting -------------------------------
(* C18 design model: every annotation table / sequence of the bounded scope with the specified counts. *)
EXTENDS CountingOps
CONSTANTS MaxRows, NExamples, NAnnot, MaxPos, MaxD, KA, KL, KK

Spans == { s \in (0..MaxPos) \X (0..MaxPos) : s[1] < s[2] }
RowSet == { <<e, a, s[1], s[2]>> : e \in 0..(NExamples - 1), a \in 0..(NAnnot - 1), s \in Spans }
Call(op, rows, E, N, D, sym, x, k, A, sc) ==
    [op |-> op, rows |-> rows, E |-> E, N |-> N, D |-> D, sym |-> sym, x |-> x, k |-> k, A |-> A, sc |-> sc]

VARIABLES pc, call, exp
vars == <<pc, call, exp>>

IsCall(c) ==
    \/ \E n \in 1..MaxRows : \E rows \in [1..n -> RowSet] :
          \/ \E op \in {"count", "count0", "count1"}, sh \in {0, 1} :
                c = Call(op, rows, IF sh = 0 THEN 0 ELSE NExamples + 1, IF sh = 0 THEN 0 ELSE NAnnot + 1, 0, TRUE, <<>>, 0, 0, <<>>)
          \/ \E op \in {"pairwise", "spacing"}, sym \in BOOLEAN, sh \in {0, 1} :
                c = Call(op, rows, 0, IF sh = 0 THEN 0 ELSE NAnnot + 1, MaxD, sym, <<>>, 0, 0, <<>>)
    \/ \E l \in 1..KL, k \in 1..KK : l >= k /\ \E x \in [1..l -> 0..(KA - 1)] :
          \/ c = Call("kmers", <<>>, 0, 0, 0, TRUE, x, k, KA, <<>>)
          \/ c = Call("kmers_scored", <<>>, 0, 0, 0, TRUE, x, k, KA, [i \in 1..l |-> ((i * 7) % 5) - 1])

Init == pc = "call" /\ IsCall(call) /\ exp = [zone |-> "none", y |-> <<>>]
Return == pc = "call" /\ pc' = "ret" /\ exp' = Expected(call) /\ UNCHANGED call
Spec == Init /\ [][Return]_vars

\* ---- properties of the oracle itself (checked in every return state)
RECURSIVE Sum1(_, _)
Sum1(s, i) == IF i = 0 THEN 0 ELSE s[i] + Sum1(s, i - 1)
Sum2(m) == Sum1([i \in 1..Len(m) |-> Sum1(m[i], Len(m[i]))], Len(m))
Sum3(t) == Sum1([i \in 1..Len(t) |-> Sum2(t[i])], Len(t))
Ret == pc = "ret" /\ exp.zone = "accept"
CountTotals == (Ret /\ call.op = "count") =>
    /\ Sum2(exp.y) = Len(call.rows)
    /\ [a \in 1..Len(exp.y[1]) |-> Sum1([e \in 1..Len(exp.y) |-> exp.y[e][a]], Len(exp.y))] = CountDim0(call.rows, Len(exp.y[1]))
    /\ [e \in 1..Len(exp.y) |-> Sum1(exp.y[e], Len(exp.y[e]))] = CountDim1(call.rows, Len(exp.y))
PairSymmetric == (Ret /\ call.op \in {"pairwise", "spacing"} /\ call.sym) =>
    \A a \in 1..Len(exp.y), b \in 1..Len(exp.y) : exp.y[a][b] = exp.y[b][a]
\* every unordered same-example pair is counted exactly once in the upper triangle incl. diagonal
PairTotal == (Ret /\ call.op = "pairwise") =>
    LET N == Len(exp.y)
        upper == Sum1([a \in 1..N |-> Sum1([b \in 1..N |-> IF (call.sym /\ b < a) THEN 0 ELSE exp.y[a][b]], N)], N)
    IN upper = Cardinality(RowPairs(call.rows))
SpacingWithinPairs == (Ret /\ call.op = "spacing" /\ ~call.sym) => Sum3(exp.y) <= Cardinality(RowPairs(call.rows))
KmerTotal == (Ret /\ call.op = "kmers") => Sum1(exp.y, Len(exp.y)) = Len(call.x) - call.k + 1
=============================================================================

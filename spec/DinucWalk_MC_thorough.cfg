SPECIFICATION Spec
CONSTANTS
  A = 4
  MinL = 1
  MaxL = 7
  NShuf = 1
  KeepLast = TRUE
INVARIANT NeverStranded
INVARIANT EveryWalkOK
INVARIANT AllConsumed
PROPERTY Terminates
CHECK_DEADLOCK FALSE

---------------------------- MODULE DeepLiftOps ----------------------------
(* C04 / C05: exact (rational) semantics of a sequential network and of the DeepLIFT rescale rule, written from the
   definitions -- NOT from tangermeme's code:
     forward      Conv1d (stride, dilation, zero padding), Linear, Flatten, AvgPool1d, MaxPool1d (non-overlapping; padding, ceil_mode), and
                  element-wise activations given as exact functions
     multipliers  linear layers propagate through their transpose; an activation multiplies the incoming multiplier by
                  (g(zx) - g(zr)) / (zx - zr), or by g'(zx) where zx = zr (torch's derivative at kinks)
     projection   hypothetical attribution of character k at position p:  SUM_c (e_k - ref)[c][p] * m[c][p]
   Tensors: [d |-> 1, v |-> Seq(Rat)] or [d |-> 2, v |-> Seq(Seq(Rat))] (channels x positions).
   Activations: "relu", "relu6", "leaky" (slope a rational), "shrink" (Softshrink, integer lambda), and the polynomials
   "sq" (z^2) and "cube" (z^3 - z) that the conformance driver installs as the forward of the transcendental activation
   classes (ELU, Tanh, Sigmoid, GELU, ...), so that the rule table entry of every class is exercised in exact arithmetic. *)
EXTENDS Rat, Naturals, FiniteSets, TLC

T1(v) == [d |-> 1, v |-> TLCEval(v)]
T2(v) == [d |-> 2, v |-> TLCEval(v)]
OneHot(s, A) == T2([c \in 1..A |-> [p \in 1..Len(s) |-> IF s[p] = c - 1 THEN ROne ELSE RZero]])
MapT(t, f(_)) == IF t.d = 1 THEN T1([i \in 1..Len(t.v) |-> f(t.v[i])])
                 ELSE T2([c \in 1..Len(t.v) |-> [p \in 1..Len(t.v[c]) |-> f(t.v[c][p])]])
ZipT(s, t, f(_, _)) == IF t.d = 1 THEN T1([i \in 1..Len(t.v) |-> f(s.v[i], t.v[i])])
                       ELSE T2([c \in 1..Len(t.v) |-> [p \in 1..Len(t.v[c]) |-> f(s.v[c][p], t.v[c][p])]])
Flat(t) == IF t.d = 1 THEN t.v ELSE FlattenSeq(t.v)
Dot(s, t) == LET a == Flat(s) b == Flat(t) IN RSum([i \in 1..Len(a) |-> RMul(a[i], b[i])])

\* ---------------------------------------------------------------- activations
Slope(a) == <<a.slope[1], a.slope[2]>>
G(a, z) == CASE a.g = "relu"   -> IF z[1] > 0 THEN z ELSE RZero
             [] a.g = "relu6"  -> IF z[1] <= 0 THEN RZero ELSE IF RLt(RInt(6), z) THEN RInt(6) ELSE z
             [] a.g = "leaky"  -> IF z[1] > 0 THEN z ELSE RMul(Slope(a), z)
             [] a.g = "shrink" -> IF RLt(RInt(a.lam), z) THEN RSub(z, RInt(a.lam))
                                  ELSE IF RLt(z, RInt(-a.lam)) THEN RAdd(z, RInt(a.lam)) ELSE RZero
             [] a.g = "sq"     -> RMul(z, z)
             [] a.g = "cube"   -> RSub(RMul(z, RMul(z, z)), z)
DG(a, z) == CASE a.g = "relu"   -> IF z[1] > 0 THEN ROne ELSE RZero
              [] a.g = "relu6"  -> IF z[1] > 0 /\ RLt(z, RInt(6)) THEN ROne ELSE RZero
              [] a.g = "leaky"  -> IF z[1] > 0 THEN ROne ELSE Slope(a)
              [] a.g = "shrink" -> IF RLt(RInt(a.lam), z) \/ RLt(z, RInt(-a.lam)) THEN ROne ELSE RZero
              [] a.g = "sq"     -> RMul(RInt(2), z)
              [] a.g = "cube"   -> RSub(RMul(RInt(3), RMul(z, z)), ROne)
Ratio(a, zx, zr) == IF zx = zr THEN DG(a, zx) ELSE RDiv(RSub(G(a, zx), G(a, zr)), RSub(zx, zr))

\* ---------------------------------------------------------------- forward
WS(l) == <<l.ws[1], l.ws[2]>>                       \* exact scale of the layer's weights and bias (e.g. 2^-k)
Wt(l, w) == RMul(WS(l), RInt(w))
ConvLout(l, Lin) == (Lin + 2 * l.pad - l.dil * (Len(l.W[1][1]) - 1) - 1) \div l.stride + 1
ConvPos(l, q, k) == (q - 1) * l.stride + (k - 1) * l.dil - l.pad + 1
Conv(l, t) == LET Lin == Len(t.v[1]) Lout == ConvLout(l, Lin) K == Len(l.W[1][1]) Cin == Len(t.v) IN
    T2([o \in 1..Len(l.W) |-> [q \in 1..Lout |->
        RAdd(Wt(l, l.b[o]), RSum([ck \in 1..(Cin * K) |->
            LET c == (ck - 1) \div K + 1  k == ((ck - 1) % K) + 1  pos == ConvPos(l, q, k) IN
            IF pos >= 1 /\ pos <= Lin THEN RMul(Wt(l, l.W[o][c][k]), t.v[c][pos]) ELSE RZero]))]])
Linear(l, t) == T1([o \in 1..Len(l.W) |-> RAdd(Wt(l, l.b[o]), RSum([i \in 1..Len(t.v) |-> RMul(Wt(l, l.W[o][i]), t.v[i])]))])
AvgPool(l, t) == LET Lout == Len(t.v[1]) \div l.size IN
    T2([c \in 1..Len(t.v) |-> [q \in 1..Lout |-> RDiv(RSum([j \in 1..l.size |-> t.v[c][(q - 1) * l.size + j]]), RInt(l.size))]])
\* MaxPool1d(kernel = stride = size, padding = pad): padded positions never win (they are -infinity), windows do not overlap
\* ceil = 1 (ceil_mode): a last, partial window is kept when it starts inside the input or the left padding
MaxPoolLen(l, Lin) ==
    IF l.ceil = 1 THEN LET c == (Lin + 2 * l.pad - l.size + l.size - 1) \div l.size + 1 IN
                       IF (c - 1) * l.size >= Lin + l.pad THEN c - 1 ELSE c
    ELSE (Lin + 2 * l.pad - l.size) \div l.size + 1
MaxPool(l, t) == LET Lin == Len(t.v[1]) Lout == MaxPoolLen(l, Lin) IN
    T2([c \in 1..Len(t.v) |-> [q \in 1..Lout |->
        LET ps == { p \in 1..Lin : p >= (q - 1) * l.size - l.pad + 1 /\ p <= (q - 1) * l.size - l.pad + l.size }
            first == CHOOSE p \in ps : \A r \in ps : p <= r IN
        FoldLeft(RMax, t.v[c][first], [j \in 1..Cardinality(ps) |-> t.v[c][first + j - 1]])]])
Apply(l, t) == CASE l.k = "conv"    -> Conv(l, t)
                 [] l.k = "linear"  -> Linear(l, t)
                 [] l.k = "flatten" -> T1(Flat(t))
                 [] l.k = "avgpool" -> AvgPool(l, t)
                 [] l.k = "maxpool" -> MaxPool(l, t)
                 [] l.k = "act"     -> MapT(t, LAMBDA z : G(l, z))
RECURSIVE FwdAll(_, _, _)
FwdAll(layers, k, t) == IF k > Len(layers) THEN <<t>> ELSE <<t>> \o FwdAll(layers, k + 1, Apply(layers[k], t))

\* ---------------------------------------------------------------- multipliers (m = multiplier of the layer's OUTPUT)
BackConv(l, tin, m) == LET Lin == Len(tin.v[1]) Lout == Len(m.v[1]) K == Len(l.W[1][1]) O == Len(l.W) IN
    T2([c \in 1..Len(tin.v) |-> [p \in 1..Lin |->
        RSum([oqk \in 1..(O * Lout * K) |->
            LET o == (oqk - 1) \div (Lout * K) + 1  r == (oqk - 1) % (Lout * K)  q == r \div K + 1  k == (r % K) + 1 IN
            IF ConvPos(l, q, k) = p THEN RMul(Wt(l, l.W[o][c][k]), m.v[o][q]) ELSE RZero])]])
BackLinear(l, tin, m) == T1([i \in 1..Len(tin.v) |-> RSum([o \in 1..Len(l.W) |-> RMul(Wt(l, l.W[o][i]), m.v[o])])])
BackFlatten(tin, m) == IF tin.d = 1 THEN m ELSE
    LET Lp == Len(tin.v[1]) IN T2([c \in 1..Len(tin.v) |-> [p \in 1..Lp |-> m.v[(c - 1) * Lp + p]]])
BackAvg(l, tin, m) == LET Lout == Len(m.v[1]) IN
    T2([c \in 1..Len(tin.v) |-> [p \in 1..Len(tin.v[1]) |->
        LET q == (p - 1) \div l.size + 1 IN IF q <= Lout THEN RDiv(m.v[c][q], RInt(l.size)) ELSE RZero]])
BackAct(l, ax, ar, m) == IF m.d = 1 THEN T1([i \in 1..Len(m.v) |-> RMul(m.v[i], Ratio(l, ax.v[i], ar.v[i]))])
                         ELSE T2([c \in 1..Len(m.v) |-> [p \in 1..Len(m.v[c]) |-> RMul(m.v[c][p], Ratio(l, ax.v[c][p], ar.v[c][p]))]])
Back(l, ax, ar, m) == CASE l.k = "conv"    -> BackConv(l, ax, m)
                        [] l.k = "linear"  -> BackLinear(l, ax, m)
                        [] l.k = "flatten" -> BackFlatten(ax, m)
                        [] l.k = "avgpool" -> BackAvg(l, ax, m)
                        [] l.k = "act"     -> BackAct(l, ax, ar, m)
\* SumToDelta at layer k: SUM_u m[u] * (ax[u] - ar[u]) = out_x[target] - out_r[target]  (C04 as a design theorem)
SumToDelta(m, ax, ar, delta) == Dot(m, ZipT(ax, ar, RSub)) = delta
RECURSIVE BwdAll(_, _, _, _, _, _)
BwdAll(layers, k, AX, AR, m, delta) ==
    IF k = 0 THEN [m |-> m, ok |-> TRUE]
    ELSE LET m2 == Back(layers[k], AX[k], AR[k], m)
             rest == BwdAll(layers, k - 1, AX, AR, m2, delta)
         IN [m |-> rest.m, ok |-> SumToDelta(m2, AX[k], AR[k], delta) /\ rest.ok]
HasMaxPool(layers) == \E k \in 1..Len(layers) : layers[k].k = "maxpool"

\* hypothetical projection for one reference: H[k][p] = SUM_c (e_k - ref)[c][p] * m[c][p]
\* ref: A x L matrix of rationals (a reference need not be one-hot: all-zero, uniform and frequency references are common)
Project(m, ref, A) ==
    [k \in 1..A |-> [p \in 1..Len(ref[1]) |->
        RSum([c \in 1..A |-> RMul(RSub(IF c = k THEN ROne ELSE RZero, ref[c][p]), m[c][p])])]]
RefT(rm) == T2([c \in 1..Len(rm) |-> [p \in 1..Len(rm[c]) |-> <<rm[c][p][1], rm[c][p][2]>>]])
MeanOver(ts, A, Lx) == [k \in 1..A |-> [p \in 1..Lx |-> RDiv(RSum([r \in 1..Len(ts) |-> ts[r][k][p]]), RInt(Len(ts)))]]

\* c = [id, A, x, refs, target, layers, hyp]
Eval(c) ==
    LET AX == FwdAll(c.layers, 1, OneHot(c.x, c.A))
        nl == Len(c.layers)
        fx == AX[nl + 1].v[c.target + 1]
        per == [r \in 1..Len(c.refs) |->
                 LET AR == FwdAll(c.layers, 1, RefT(c.refs[r]))
                     fr == AR[nl + 1].v[c.target + 1]
                     seed == T1([o \in 1..Len(AX[nl + 1].v) |-> IF o = c.target + 1 THEN ROne ELSE RZero])
                     b == IF HasMaxPool(c.layers) THEN [m |-> T2(<<>>), ok |-> TRUE]
                          ELSE BwdAll(c.layers, nl, AX, AR, seed, RSub(fx, fr))
                 IN [fr |-> fr, mult |-> b.m.v, ok |-> b.ok]]
        nomax == ~HasMaxPool(c.layers)
        projs == [r \in 1..Len(c.refs) |-> Project(per[r].mult, RefT(c.refs[r]).v, c.A)]
        mean == MeanOver(projs, c.A, Len(c.x))
        attr == [k \in 1..c.A |-> [p \in 1..Len(c.x) |-> IF c.hyp \/ c.x[p] = k - 1 THEN mean[k][p] ELSE RZero]]
    IN [id |-> c.id, fx |-> fx, per |-> per, attr |-> IF nomax THEN attr ELSE <<>>]
=============================================================================

----------------------------- MODULE VariantOps -----------------------------
(* C10: variant effects as string-level edits.
   x is a batch (tuple of equally long symbol tuples); positions and example indices are 0-based as in the API.
   rows: tuple of <<example, position>> (deletion) or <<example, position, character>> (substitution, insertion).
   The specified outcome is [zone, before, after]; before/after are batches.                                   *)
EXTENDS Integers, Sequences, FiniteSets, TLC

N(x) == Len(x)
L(x) == Len(x[1])
Outcome(zone, before, after, after2) == [zone |-> zone, before |-> before, after |-> after, after2 |-> after2]
RowsOf(rows, i) == { k \in DOMAIN rows : rows[k][1] = i - 1 }
IndexOK(x, rows, hi) == \A k \in DOMAIN rows : rows[k][1] >= 0 /\ rows[k][1] < N(x) /\ rows[k][2] >= 0 /\ rows[k][2] <= hi
MaxOf(S) == CHOOSE m \in S : \A k \in S : k <= m
\* characters of substitution / insertion rows are indices into the alphabet (size a): one at or beyond a cannot be honoured
CharOK(rows, a) == \A k \in DOMAIN rows : rows[k][3] < a
AOf(c) == IF "A" \in DOMAIN c THEN c.A ELSE 4

\* the elements of a set of integers in ascending order
RECURSIVE Sorted(_)
Sorted(S) == IF S = {} THEN <<>> ELSE LET m == CHOOSE v \in S : \A w \in S : v <= w IN <<m>> \o Sorted(S \ {m})
Pick(xi, idxs) == [k \in 1..Len(idxs) |-> xi[idxs[k]]]            \* idxs: ascending 1-based indices

\* ---------------------------------------------------------------- substitution
SubConflict(rows) == \E a, b \in DOMAIN rows : rows[a][1] = rows[b][1] /\ rows[a][2] = rows[b][2] /\ rows[a][3] # rows[b][3]
SubAfter(x, rows) ==
    [i \in 1..N(x) |-> [q \in 1..L(x) |->
        LET hit == { k \in RowsOf(rows, i) : rows[k][2] = q - 1 } IN
        IF hit = {} THEN x[i][q] ELSE rows[CHOOSE k \in hit : TRUE][3]]]
\* conflicting rows (one position, two different characters) have no specified result: zone "any"
ExpSubstitution(x, rows, a) ==
    IF ~IndexOK(x, rows, L(x) - 1) \/ ~CharOK(rows, a) THEN Outcome("reject", <<>>, <<>>, <<>>)
    ELSE Outcome(IF SubConflict(rows) THEN "any" ELSE "accept", x, SubAfter(x, rows), SubAfter(x, rows))

\* ---------------------------------------------------------------- deletion
Deleted(rows, i) == { rows[k][2] + 1 : k \in RowsOf(rows, i) }                 \* 1-based positions
DelCount(x, rows) == MaxOf({ Cardinality(Deleted(rows, i)) : i \in 1..N(x) })   \* every example loses this many
DelAfter1(xi, del, extra, left) ==
    LET und == Sorted((1..Len(xi)) \ del)                    \* undeleted positions, ascending
        keep == IF left THEN SubSeq(und, extra + 1, Len(und)) ELSE SubSeq(und, 1, Len(und) - extra)
    IN Pick(xi, keep)
ExpDeletion(x, rows, left) ==
    IF ~IndexOK(x, rows, L(x) - 1) THEN Outcome("reject", <<>>, <<>>, <<>>)
    ELSE LET D == DelCount(x, rows)
             after == [i \in 1..N(x) |-> DelAfter1(x[i], Deleted(rows, i), D - Cardinality(Deleted(rows, i)), left)]
         IN Outcome("accept", [i \in 1..N(x) |-> IF left THEN SubSeq(x[i], D + 1, L(x)) ELSE SubSeq(x[i], 1, L(x) - D)],
                    after, after)

\* ---------------------------------------------------------------- insertion
\* every inserted character goes immediately before its original coordinate; then trim to the original length
InsAt(rows, i, q) == { k \in RowsOf(rows, i) : rows[k][2] = q - 1 }
\* the characters of a set of rows that share one coordinate, in ascending (up) or descending row order: the statement
\* does not order two insertions at one coordinate, so both orders are admissible (after / after2)
RECURSIVE Emit(_, _, _)
Emit(rows, ks, up) ==
    IF ks = {} THEN <<>>
    ELSE LET k == CHOOSE v \in ks : \A w \in ks : IF up THEN v <= w ELSE v >= w IN <<rows[k][3]>> \o Emit(rows, ks \ {k}, up)
RECURSIVE InsFrom(_, _, _, _, _)
InsFrom(xi, rows, i, q, up) ==
    IF q > Len(xi) THEN Emit(rows, InsAt(rows, i, q), up)           \* coordinate L: after the last character
    ELSE Emit(rows, InsAt(rows, i, q), up) \o <<xi[q]>> \o InsFrom(xi, rows, i, q + 1, up)
InsAmbiguous(rows) == \E a, b \in DOMAIN rows : a # b /\ rows[a][1] = rows[b][1] /\ rows[a][2] = rows[b][2] /\ rows[a][3] # rows[b][3]
ExpInsertion(x, rows, left, a) ==
    IF ~IndexOK(x, rows, L(x)) \/ ~CharOK(rows, a) THEN Outcome("reject", <<>>, <<>>, <<>>)
    ELSE LET Trim(full) == [i \in 1..N(x) |-> IF left THEN SubSeq(full[i], Len(full[i]) - L(x) + 1, Len(full[i]))
                                                       ELSE SubSeq(full[i], 1, L(x))]
             atEnd == \E k \in DOMAIN rows : rows[k][2] = L(x)      \* InsertStrictReject (see ErsatzOps): coordinate L may be refused
         IN Outcome(IF atEnd THEN "either" ELSE "accept", x,
                    Trim([i \in 1..N(x) |-> InsFrom(x[i], rows, i, 1, TRUE)]),
                    Trim([i \in 1..N(x) |-> InsFrom(x[i], rows, i, 1, FALSE)]))

Expected(c) ==
    CASE c.op = "substitution" -> ExpSubstitution(c.x, c.rows, AOf(c))
      [] c.op = "deletion" -> ExpDeletion(c.x, c.rows, c.left)
      [] c.op = "insertion" -> ExpInsertion(c.x, c.rows, c.left, AOf(c))
=============================================================================

SPECIFICATION Spec
CONSTANTS
  LenX = 8
  MaxN = 4
INVARIANT AnnotationAxis
INVARIANT ProductSeparates
INVARIANT MargShape
CHECK_DEADLOCK FALSE

------------------------------ MODULE SymIndex ------------------------------
(* symmetric_tomtom (beyond the listed properties; lane "extras" of C14): which (query, target) comparison ends up in
   which cell of the all-pairs matrix.  The code
     Sort      orders the motifs by length (stable),
     Row(q)    for the q-th motif of that order computes its comparison against every LATER motif (the `i <= iq` skip in
               _p_values), leaving (p = 1, score 0) on the diagonal,
     Mirror    copies the upper triangle into the lower one,
     Unsort    undoes the ordering on both axes.
   A cell of the abstract matrix holds the pair <<query, target>> (original motif numbers) whose comparison it stores.
   Theorem checked for every length vector of the scope: in the returned matrix cell (i, j), i # j, holds the comparison
   with the SHORTER of the two as the query (ties: the one listed first), every unordered pair is computed exactly once,
   and the matrix is symmetric.  SkipRule = "le" is the code; "lt" (a row also compares a motif with itself, so the diagonal
   is no longer the neutral entry) is the spec-level mutant.                                                          *)
EXTENDS Integers, Sequences, FiniteSets, TLC
CONSTANTS MaxN, MaxLen, SkipRule
VARIABLES lens, order, mat, q, pc, out, computed
vars == <<lens, order, mat, q, pc, out, computed>>
None == <<0, 0>>
N == Len(lens)
Before(i, j) == lens[i] < lens[j] \/ (lens[i] = lens[j] /\ i < j)
IsStableSort(o) == /\ Len(o) = N /\ { o[k] : k \in 1..N } = 1..N
                   /\ \A a, b \in 1..N : a < b => Before(o[a], o[b])
Init == /\ lens \in UNION { [1..n -> 1..MaxLen] : n \in 1..MaxN }
        /\ order = <<>> /\ mat = <<>> /\ q = 0 /\ pc = "sort" /\ out = <<>> /\ computed = {}
Sort == /\ pc = "sort" /\ pc' = "rows" /\ q' = 1
        /\ order' = CHOOSE o \in [1..N -> 1..N] : IsStableSort(o)
        /\ mat' = [a \in 1..N |-> [b \in 1..N |-> None]]
        /\ UNCHANGED <<lens, out, computed>>
Skip(a, b) == IF SkipRule = "le" THEN b <= a ELSE b < a
Row == /\ pc = "rows" /\ q <= N
       /\ mat' = [mat EXCEPT ![q] = [b \in 1..N |-> IF Skip(q, b) THEN None ELSE <<order[q], order[b]>>]]
       /\ computed' = computed \cup { {order[q], order[b]} : b \in { b \in 1..N : ~Skip(q, b) } }
       /\ q' = q + 1 /\ UNCHANGED <<lens, order, pc, out>>
Mirror == /\ pc = "rows" /\ q = N + 1 /\ pc' = "unsort"
          /\ mat' = [a \in 1..N |-> [b \in 1..N |-> IF b < a THEN mat[b][a] ELSE mat[a][b]]]
          /\ UNCHANGED <<lens, order, q, out, computed>>
Inv(o) == [v \in 1..N |-> CHOOSE k \in 1..N : o[k] = v]
Unsort == /\ pc = "unsort" /\ pc' = "done"
          /\ out' = LET inv == Inv(order) IN [i \in 1..N |-> [j \in 1..N |-> mat[inv[i]][inv[j]]]]
          /\ UNCHANGED <<lens, order, mat, q, computed>>
Next == Sort \/ Row \/ Mirror \/ Unsort
Spec == Init /\ [][Next]_vars /\ WF_vars(Next)

Done == pc = "done"
CellHoldsShorterAsQuery == Done => \A i, j \in 1..N : i # j =>
    out[i][j] = IF Before(i, j) THEN <<i, j>> ELSE <<j, i>>
DiagonalNeutral == Done => \A i \in 1..N : out[i][i] = None
Symmetric == Done => \A i, j \in 1..N : out[i][j] = out[j][i]
EveryPairOnce == Done => computed = { {i, j} : i, j \in 1..N } \ { {i} : i \in 1..N }
Terminates == <>Done
=============================================================================

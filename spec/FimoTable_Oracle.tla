-------------------------- MODULE FimoTable_Oracle --------------------------
(* M3 lane of C11: exact tail COUNTS of realistic (already discretised) motifs up to width 30, in two-limb naturals
   (base 2^30; 4^30 = 2^60 fits).  Cases come shifted so that every column minimum is 0: M[c][j] >= 0, R = sum of column
   maxima; the result lists Tail(s) for s = 0..R (number of the 4^w sequences whose shifted score is >= s).
   The run also asserts the design invariants per case: total mass 4^w and a non-increasing tail.                     *)
EXTENDS Integers, Sequences, TLC, Json, IOUtils
Cases == ndJsonDeserialize(IOEnv.CASES)
B30 == 1073741824
LZero == <<0, 0>>
LOne == <<0, 1>>
LAdd(a, b) == LET lo == a[2] + b[2] IN <<a[1] + b[1] + (lo \div B30), lo % B30>>
LLeq(a, b) == a[1] < b[1] \/ (a[1] = b[1] /\ a[2] <= b[2])
RECURSIVE LPow4(_)
LPow4(n) == IF n = 0 THEN LOne ELSE LET p == LPow4(n - 1) d == LAdd(p, p) IN LAdd(d, d)
RECURSIVE Pmf(_, _, _, _)
Pmf(M, j, R, old) ==
    IF j > Len(M[1]) THEN old
    ELSE Pmf(M, j + 1, R, TLCEval([s \in 0..R |->
            LET t(c) == IF s - M[c][j] >= 0 THEN old[s - M[c][j]] ELSE LZero
            IN LAdd(LAdd(t(1), t(2)), LAdd(t(3), t(4)))]))
RECURSIVE Acc(_, _, _)
Acc(pmf, s, acc) == IF s < 0 THEN <<>> ELSE LET a == LAdd(acc, pmf[s]) IN <<a>> \o Acc(pmf, s - 1, a)
Eval(c) == LET R == c.R
               p0 == [s \in 0..R |-> IF s = 0 THEN LOne ELSE LZero]
               down == Acc(Pmf(c.M, 1, R, p0), R, LZero)            \* Tail(R), Tail(R-1), ..., Tail(0)
           IN [id |-> c.id, tail |-> [s \in 1..(R + 1) |-> down[R + 2 - s]],
               ok |-> down[R + 1] = LPow4(Len(c.M[1])) /\ \A k \in 1..R : LLeq(down[k], down[k + 1])]
Results == [i \in 1..Len(Cases) |-> Eval(Cases[i])]
ASSUME /\ \A i \in 1..Len(Cases) : Results[i].ok
       /\ ndJsonSerialize(IOEnv.OUT, Results)
VARIABLE dummy
Init == dummy = 0
Next == UNCHANGED dummy
Spec == Init /\ [][Next]_dummy
=============================================================================

------------------------------- MODULE DLSBook -------------------------------
(* C06: the book-keeping of deep_lift_shap's main loop, one action per step of the code.
   N examples, S references (shuffles) per example, batch size B counted in (example, reference) PAIRS.
   i        loop counter over the N*S pairs (pair i is example i \div S, reference i % S)
   Xi, rj   the current batch: example indices / reference indices
   queue    per-pair results not yet emitted
   z        next example to emit;  emitted = <<example, its S pairs>> blocks in emission order
   batches  every flushed batch;  seeds = the seed offset (= reference index) used for every pair, in call order
   What the property needs: whatever B is, example z is emitted from exactly its own S pairs in order, every example once
   and in input order, and the reference for pair (e, j) is generated with seed random_state + j.                      *)
EXTENDS Naturals, Sequences, FiniteSets, TLC
CONSTANTS MaxN, MaxS, MaxB
VARIABLES N, S, B, i, Xi, rj, queue, z, emitted, batches, seeds, pc
vars == <<N, S, B, i, Xi, rj, queue, z, emitted, batches, seeds, pc>>

Start(n, s, b) == /\ N = n /\ S = s /\ B = b
                  /\ i = 0 /\ Xi = <<>> /\ rj = <<>> /\ queue = <<>> /\ z = 0
                  /\ emitted = <<>> /\ batches = <<>> /\ seeds = <<>> /\ pc = "fill"
Init == \E n \in 1..MaxN, s \in 1..MaxS, b \in 1..MaxB : Start(n, s, b)

Fill == /\ pc = "fill" /\ i < N * S
        /\ Xi' = Append(Xi, i \div S) /\ rj' = Append(rj, i % S)
        /\ pc' = IF Len(Xi') = B \/ i = N * S - 1 THEN "flush" ELSE "fill"
        /\ i' = IF pc' = "fill" THEN i + 1 ELSE i
        /\ UNCHANGED <<N, S, B, queue, z, emitted, batches, seeds>>
Pairs == [k \in 1..Len(Xi) |-> <<Xi[k], rj[k]>>]
Flush == /\ pc = "flush"
         /\ batches' = Append(batches, Pairs)
         /\ seeds' = seeds \o Pairs              \* reference of pair (e, j) is drawn with seed random_state + j
         /\ queue' = queue \o Pairs              \* one result per pair, in pair order
         /\ pc' = "drain" /\ UNCHANGED <<N, S, B, i, Xi, rj, z, emitted>>
Drain == /\ pc = "drain"
         /\ IF Len(queue) >= S
            THEN /\ emitted' = Append(emitted, <<z, SubSeq(queue, 1, S)>>)
                 /\ queue' = SubSeq(queue, S + 1, Len(queue))
                 /\ z' = z + 1 /\ UNCHANGED <<i, Xi, rj, pc>>
            ELSE /\ Xi' = <<>> /\ rj' = <<>> /\ i' = i + 1
                 /\ pc' = IF i + 1 >= N * S THEN "done" ELSE "fill"
                 /\ UNCHANGED <<emitted, queue, z>>
         /\ UNCHANGED <<N, S, B, batches, seeds>>
Next == Fill \/ Flush \/ Drain
Spec == Init /\ [][Next]_vars /\ WF_vars(Next)

\* ---------------------------------------------------------------- properties
BlockOK == \A k \in 1..Len(emitted) : /\ emitted[k][1] = k - 1
                                      /\ emitted[k][2] = [j \in 1..S |-> <<k - 1, j - 1>>]
BatchSizes == \A k \in 1..Len(batches) : Len(batches[k]) \in 1..B
DoneOK == pc = "done" => /\ Len(emitted) = N /\ queue = <<>>
                         /\ seeds = [k \in 1..(N * S) |-> <<(k - 1) \div S, (k - 1) % S>>]
Terminates == <>(pc = "done")
=============================================================================

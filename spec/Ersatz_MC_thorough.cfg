SPECIFICATION Spec
CONSTANTS
  Alpha = 3
  MaxL = 5
  MaxM = 3
  MaxLB = 2
  Slack = 3
INVARIANT TypeOK
INVARIANT OutLenOK
INVARIANT Theorems
PROPERTY CallerTensorsUntouched
CHECK_DEADLOCK FALSE

------------------------------- MODULE Seqlets -------------------------------
(* C19: the iterative seqlet extractor of tfmodisco_seqlets, one action per iteration.
   track  scores of the candidate windows of one example; NegInf marks positions that may not be chosen
   Each iteration takes A position of maximal score (ties are not ordered by the statement: the model branches over them),
   emits the seqlet <<argmax - Flank, argmax + Window + Flank>> and suppresses the scores in [argmax - Supp, argmax + Supp].
   Checked: two seqlets of one example never have starts closer than the suppression radius; every iteration removes at
   least its own argmax, so the loop terminates; only positions that were candidates are ever chosen.                    *)
EXTENDS Integers, Sequences, FiniteSets, TLC
CONSTANTS MaxLen, Vals, Window, Flank, Supp
NegInf == -1000
VARIABLES track, cur, emitted, pc
vars == <<track, cur, emitted, pc>>

Init == /\ \E d \in 1..MaxLen : track \in [1..d -> Vals \cup {NegInf}]
        /\ cur = track /\ emitted = <<>> /\ pc = "loop"
MaxVal(t) == CHOOSE v \in { t[i] : i \in DOMAIN t } : \A i \in DOMAIN t : t[i] <= v
Iterate == /\ pc = "loop" /\ MaxVal(cur) # NegInf
           /\ \E a \in { i \in DOMAIN cur : cur[i] = MaxVal(cur) } :      \* a is 1-based; the API's argmax is a - 1
                /\ emitted' = Append(emitted, <<(a - 1) - Flank, (a - 1) + Window + Flank>>)
                /\ cur' = [i \in DOMAIN cur |-> IF i - 1 >= (a - 1) - Supp /\ i - 1 <= (a - 1) + Supp THEN NegInf ELSE cur[i]]
           /\ UNCHANGED <<track, pc>>
Finish == /\ pc = "loop" /\ MaxVal(cur) = NegInf /\ pc' = "done" /\ UNCHANGED <<track, cur, emitted>>
Next == Iterate \/ Finish
Spec == Init /\ [][Next]_vars /\ WF_vars(Next)

Abs(v) == IF v < 0 THEN -v ELSE v
FarApart == \A j, k \in DOMAIN emitted : j # k => Abs(emitted[j][1] - emitted[k][1]) > Supp
OnlyCandidates == \A j \in DOMAIN emitted : track[emitted[j][1] + Flank + 1] # NegInf
SpanLength == \A j \in DOMAIN emitted : emitted[j][2] - emitted[j][1] = Window + 2 * Flank
Progress == [][pc = "loop" /\ pc' = "loop" => Cardinality({ i \in DOMAIN cur : cur'[i] = NegInf }) > Cardinality({ i \in DOMAIN cur : cur[i] = NegInf })]_vars
Terminates == <>(pc = "done")
=============================================================================

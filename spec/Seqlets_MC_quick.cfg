SPECIFICATION Spec
CONSTANTS
  MaxLen = 6
  Vals <- V2
  Window = 2
  Flank = 1
  Supp = 2
INVARIANT FarApart
INVARIANT OnlyCandidates
INVARIANT SpanLength
PROPERTY Progress
PROPERTY Terminates
CHECK_DEADLOCK FALSE

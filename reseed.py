#!/venv/bin/python
"""reseed.py [Cxx ...] [--tier quick]  -- regression over the stored seeded changes.
Applies every /verif/seeded/<Cxx>-<k>/patch.diff in turn to a scratch worktree of /repo's HEAD (never to /repo itself), runs the
property's check against that worktree (VERIF_REPO), and reports which changes are still detected.  The scratch worktree lives
under /tmp and is removed at the end.  Writes seeded/regression.json."""
import json
import os
import subprocess
import sys
import time

VERIF = os.path.dirname(os.path.abspath(__file__))
WT = "/tmp/reseed-wt-%d" % os.getpid()


def sh(cmd, **kw):
    p = subprocess.run(cmd, stdout=subprocess.PIPE, stderr=subprocess.STDOUT, **kw)
    return p.returncode, p.stdout.decode("utf8", "replace")


def main():
    args = [a for a in sys.argv[1:] if not a.startswith("--")]
    tier = sys.argv[sys.argv.index("--tier") + 1] if "--tier" in sys.argv else "quick"
    if "--tier" in sys.argv:
        args = [a for a in args if a != tier]
    dirs = sorted(d for d in os.listdir(os.path.join(VERIF, "seeded")) if os.path.exists(os.path.join(VERIF, "seeded", d, "patch.diff")))
    if args:
        dirs = [d for d in dirs if d.split("-")[0] in args or d in args]
    sh(["git", "-C", "/repo", "worktree", "add", "-q", "--detach", WT, "HEAD"])
    out = {}
    try:
        for d in dirs:
            pid = d.split("-")[0]
            patch = os.path.join(VERIF, "seeded", d, "patch.diff")
            sh(["git", "-C", WT, "reset", "--hard", "-q"])
            rc, o = sh(["git", "-C", WT, "apply", patch])
            if rc != 0:
                out[d] = dict(applied=False, note=o.strip()[-200:])
                sh(["git", "-C", WT, "reset", "--hard", "-q"])
                print(d, "patch does not apply any more"); sys.stdout.flush()
                continue
            t0 = time.time()
            env = dict(os.environ, VERIF_REPO=WT, VERIF_WORK_TAG="reseed")
            rc, o = sh([os.path.join(VERIF, "check"), pid, "--tier", tier], cwd=VERIF, env=env, timeout=7200)
            last = o.strip().splitlines()[-1] if o.strip() else ""
            out[d] = dict(applied=True, exit=rc, detected=(rc == 1 and "VIOLATION property=%s" % pid in o), last=last[:160], wall_s=int(time.time() - t0))
            print(d, "detected" if out[d]["detected"] else "NOT DETECTED (exit %d)" % rc, last[:120]); sys.stdout.flush()
            sh(["git", "-C", WT, "reset", "--hard", "-q"])
            sh(["git", "-C", WT, "clean", "-fdq"])
    finally:
        sh(["git", "-C", "/repo", "worktree", "remove", "--force", WT])
    p = os.path.join(VERIF, "seeded", "regression.json")
    old = json.load(open(p)) if os.path.exists(p) else {}
    old.update(out)
    json.dump(old, open(p, "w"), indent=1, sort_keys=True)
    miss = [d for d, v in out.items() if v.get("applied") and not v["detected"]]
    print("checked %d, detected %d, missed %s, not applicable %s" % (len(out), sum(1 for v in out.values() if v.get("detected")), miss,
                                                                    [d for d, v in out.items() if not v.get("applied")]))


if __name__ == "__main__":
    main()

"""python -m harness.findings_add <id> <property> <status> <what>  (records the current /repo HEAD for fixed entries)"""
import json, subprocess, sys, os
VERIF = os.path.dirname(os.path.dirname(os.path.abspath(__file__)))
fid, prop, status, what = sys.argv[1:5]
match = sys.argv[5] if len(sys.argv) > 5 else None
sha = subprocess.check_output(["git", "-C", "/repo", "rev-parse", "--short", "HEAD"]).decode().strip()
p = os.path.join(VERIF, "known_findings.json")
kf = json.load(open(p))
kf["findings"] = [f for f in kf["findings"] if f["id"] != fid]
if status == "fixed":
    what = "fixed: property=%s %s %s" % (prop, sha, what)
kf["findings"].append(dict(id=fid, property=prop, status=status, commit=sha if status == "fixed" else None, what=what, match=match))
json.dump(kf, open(p, "w"), indent=1)
print("recorded", fid)

"""Run TLC / SANY under `timeout`, parse what they print."""
import json
import os
import re
import subprocess
import time

JARS = "/opt/veriftools/tla/tla2tools.jar:/opt/veriftools/tla/CommunityModules-deps.jar"
SPEC_DIR = os.path.join(os.path.dirname(os.path.dirname(os.path.abspath(__file__))), "spec")


class TlcResult:
    def __init__(self):
        self.rc = None
        self.out = ""
        self.generated = 0
        self.distinct = 0
        self.depth = 0
        self.violated = None      # name of violated invariant / property, if any
        self.kind = "ok"          # ok | invariant | property | liveness | deadlock | assume | error | timeout
        self.coverage = {}        # action name -> (distinct, total)
        self.wall_s = 0.0
        self.dump = None
        self.cmd = ""

    def summary(self):
        return dict(rc=self.rc, kind=self.kind, violated=self.violated, generated=self.generated,
                    distinct=self.distinct, depth=self.depth, wall_s=round(self.wall_s, 2))


_FINAL = re.compile(r'(\d+) states generated, (\d+) distinct states found, (\d+) states left on queue')
_DEPTH = re.compile(r'The depth of the complete state graph search is (\d+)')
_INV = re.compile(r'Error: Invariant (\S+) is violated')
_PROP = re.compile(r'Error: Action property (\S+) is violated|Error: Temporal properties were violated')
_COV = re.compile(r'^<(\w+) line \d+, col \d+ to line \d+, col \d+ of module (\w+)>: (\d+):(\d+)', re.M)


def run_tlc(module, cfg, workdir, workers=16, env=None, dump=False, timeout_s=1800, coverage=False,
            simulate=None, depth=None, seed=None, extra=(), xmx=None, deadlock=False):
    """module: name in spec/ (without .tla); cfg: file name in spec/.
    simulate: None or dict(num=..., file=prefix)."""
    os.makedirs(workdir, exist_ok=True)
    meta = os.path.join(workdir, "meta-%s-%d" % (module, int(time.time() * 1e6) % 10 ** 9))
    cmd = ["timeout", "-k", "10", str(int(timeout_s)), "java", "-Xss1g", "-XX:+UseParallelGC"]
    if xmx:
        cmd.append("-Xmx%s" % xmx)
    cmd += ["-cp", JARS, "tlc2.TLC", "-metadir", meta, "-noGenerateSpecTE",
            "-workers", str(workers), "-config", os.path.join(SPEC_DIR, cfg)]
    res = TlcResult()
    if dump:
        res.dump = os.path.join(workdir, "dump-%s" % module)
        cmd += ["-dump", res.dump]
    if coverage:
        cmd += ["-coverage", "1"]
    if deadlock:
        cmd += ["-deadlock"]
    if simulate is not None:
        s = "num=%d" % simulate["num"]
        if simulate.get("file"):
            s = "file=%s,%s" % (simulate["file"], s)
        cmd += ["-simulate", s]
    if depth is not None:
        cmd += ["-depth", str(depth)]
    if seed is not None:
        cmd += ["-seed", str(seed)]
    cmd += list(extra)
    cmd.append(os.path.join(SPEC_DIR, module + ".tla"))
    e = dict(os.environ)
    e.pop("JAVA_TOOL_OPTIONS", None)
    if env:
        e.update({k: str(v) for k, v in env.items()})
    t0 = time.time()
    p = subprocess.run(cmd, stdout=subprocess.PIPE, stderr=subprocess.STDOUT, env=e, cwd=workdir)
    res.wall_s = time.time() - t0
    res.rc = p.returncode
    res.out = p.stdout.decode("utf8", "replace")
    res.cmd = " ".join(cmd)
    if dump and os.path.exists(res.dump + ".dump"):
        res.dump = res.dump + ".dump"
    ms = _FINAL.findall(res.out)
    if ms:
        res.generated, res.distinct = int(ms[-1][0]), int(ms[-1][1])
    m = _DEPTH.search(res.out)
    if m:
        res.depth = int(m.group(1))
    for m in _COV.finditer(res.out):
        res.coverage[m.group(1)] = (int(m.group(3)), int(m.group(4)))
    if p.returncode == 124 or p.returncode == 137:
        res.kind = "timeout"
    elif p.returncode == 0:
        res.kind = "ok"
    else:
        m = _INV.search(res.out)
        if m:
            res.kind, res.violated = "invariant", m.group(1)
        elif _PROP.search(res.out):
            mm = _PROP.search(res.out)
            res.kind, res.violated = "property", mm.group(1) or "temporal"
        elif "Deadlock reached" in res.out:
            res.kind = "deadlock"
        elif "Assumption" in res.out and "is false" in res.out:
            res.kind = "assume"
        else:
            res.kind = "error"
    # tidy the metadir (fingerprint sets can be large)
    subprocess.run(["rm", "-rf", meta])
    return res


def counterexample_text(res, max_lines=80):
    """The 'State n:' part of TLC's error trace, trimmed."""
    i = res.out.find("Error:")
    if i < 0:
        return ""
    return "\n".join(res.out[i:].splitlines()[:max_lines])


def sany(module):
    p = subprocess.run(["java", "-cp", JARS, "tla2sany.SANY", os.path.join(SPEC_DIR, module + ".tla")],
                       stdout=subprocess.PIPE, stderr=subprocess.STDOUT, cwd=SPEC_DIR)
    out = p.stdout.decode("utf8", "replace")
    ok = p.returncode == 0 and "Semantic errors" not in out and "***Parse Error***" not in out \
        and "Fatal errors" not in out
    return ok, out


def write_ndjson(path, rows):
    with open(path, "w") as f:
        for r in rows:
            f.write(json.dumps(r, separators=(",", ":")))
            f.write("\n")


def read_ndjson(path):
    out = []
    with open(path) as f:
        for line in f:
            line = line.strip()
            if line:
                out.append(json.loads(line))
    return out

"""CLI: ./check Cxx [--tier quick|thorough] [--replay path] | --setup | --selfcheck"""
import argparse
import importlib
import json
import os
import sys
import traceback

from . import core, tlc


def setup():
    ok = True
    os.makedirs(os.path.join(core.VERIF, ".cache", "numba"), exist_ok=True)
    os.makedirs(os.path.join(core.VERIF, "evidence"), exist_ok=True)
    os.makedirs(os.path.join(core.VERIF, "replays"), exist_ok=True)
    import subprocess
    p = subprocess.run(["java", "-version"], stdout=subprocess.PIPE, stderr=subprocess.STDOUT)
    print("java:", p.stdout.decode().splitlines()[0] if p.returncode == 0 else "MISSING")
    ok &= p.returncode == 0
    for j in tlc.JARS.split(":"):
        print("jar:", j, os.path.exists(j))
        ok &= os.path.exists(j)
    p = subprocess.run([core.PY, "-c", "import torch, numba, numpy, pandas, pyfaidx, pyBigWig; print('venv imports ok')"],
                       stdout=subprocess.PIPE, stderr=subprocess.STDOUT)
    print(p.stdout.decode().strip()[-300:])
    ok &= p.returncode == 0
    mods = sorted(f[:-4] for f in os.listdir(tlc.SPEC_DIR) if f.endswith(".tla"))
    from concurrent.futures import ThreadPoolExecutor
    with ThreadPoolExecutor(8) as ex:
        for m, (good, out) in zip(mods, ex.map(tlc.sany, mods)):
            print("sany %-22s %s" % (m, "ok" if good else "FAILED"))
            if not good:
                print(out[-1500:])
            ok &= good
    return 0 if ok else 2


def main(argv=None):
    ap = argparse.ArgumentParser()
    ap.add_argument("pid", nargs="?")
    ap.add_argument("--tier", default=os.environ.get("VERIF_TIER", "quick"), choices=["quick", "thorough"])
    ap.add_argument("--replay")
    ap.add_argument("--setup", action="store_true")
    a = ap.parse_args(argv)
    if a.setup:
        return setup()
    if not a.pid:
        ap.error("property id required")
    seed = int(os.environ.get("VERIF_SEED", "0") or 0)
    pid = a.pid.upper()
    try:
        mod = importlib.import_module("harness.props." + pid.lower())
    except ImportError:
        print("no check for", pid)
        traceback.print_exc()
        return 2
    ctx = core.Ctx(pid, a.tier, seed)
    try:
        if a.replay:
            rc = mod.replay(ctx, json.load(open(a.replay)))
            import shutil
            shutil.rmtree(ctx.work, ignore_errors=True)
            return rc
        mod.run(ctx)
        rc = ctx.finish(rule=mod.RULE, exhaustive=getattr(mod, "EXHAUSTIVE", False))
        print("%s %s tier=%s seed=%d: states=%d traces=%d violations=%d known=%d wall=%.0fs" % (
            "FAIL" if rc else "PASS", pid, a.tier, seed, ctx.cov["states"],
            ctx.cov["traces_validated_against_impl"], getattr(ctx, "nviol", 0), len(ctx.known_hits),
            __import__("time").time() - ctx.t0))
        return rc
    except core.Machinery as e:
        print("MACHINERY-FAILURE %s: %s" % (pid, e))
        return 2
    except Exception:
        print("MACHINERY-FAILURE %s (unexpected exception)" % pid)
        traceback.print_exc()
        return 2


if __name__ == "__main__":
    sys.exit(main())

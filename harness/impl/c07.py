"""C07 worker: runs call histories (function, crash point) on a shared model and on fresh copies.
   Crash points are injected through what the API accepts: a forward that raises at its k-th call, a `references`
   callable that raises, an additional_nonlinear_ops handler that raises during back-propagation, a module whose hook
   registration raises, too-short args, an integer X, an out-of-range target, and a tripping hypothetical_attributions.
   PROGRAMS mirrors spec/ModelLife.tla (Programs): runs per API function and batches per run for the fixed inputs below;
   a dry run verifies the mirror (forward / backward counts) before anything is judged."""
import copy
import random

import numpy
import torch

from harness.impl import base
import tangermeme.deep_lift_shap as dls_mod
from tangermeme.ablate import ablate
from tangermeme.deep_lift_shap import deep_lift_shap, _nonlinear
from tangermeme.design import greedy_substitution
from tangermeme.ersatz import dinucleotide_shuffle
from tangermeme.ism import saturation_mutagenesis
from tangermeme.marginalize import marginalize
from tangermeme.predict import predict
from tangermeme.product import apply_product
from tangermeme.space import space
from tangermeme.variant_effect import substitution_effect

PROGRAMS = {
    "predict": [("P", 2)], "deep_lift_shap": [("H", 2)], "saturation_mutagenesis": [("P", 1), ("P", 2)],
    "marginalize": [("P", 2), ("P", 2)], "marginalize_dls": [("H", 2), ("H", 2)], "ablate": [("P", 1), ("P", 2)],
    "ablate_dls": [("H", 2), ("H", 2)], "space": [("P", 2), ("P", 2)], "variant_effect": [("P", 2), ("P", 2)],
    "apply_product": [("P", 2)], "greedy_substitution": [("P", 1), ("P", 2)],
}
REF_CALLS_PER_BATCH = {"deep_lift_shap": 1, "marginalize_dls": 1, "ablate_dls": 2}

TRIP = {}
COUNT = {}


class Injected(RuntimeError):
    pass


def arm(**kw):
    TRIP.clear(); COUNT.clear()
    TRIP.update(kw)


def tick(name):
    COUNT[name] = COUNT.get(name, 0) + 1
    if TRIP.get(name) == COUNT[name]:
        raise Injected("%s #%d" % (name, COUNT[name]))


class BadReg(torch.nn.ReLU):
    def register_full_backward_hook(self, *a, **k):
        tick("register")
        return super().register_full_backward_hook(*a, **k)


class TripAct(torch.nn.Module):
    def forward(self, x):
        tick("actforward")           # a failure INSIDE a hooked activation: its pre-forward hook has run, its forward hook has not
        return torch.nn.functional.relu(x) + 0.1 * x


def tripact_rule(module, grad_input, grad_output):
    tick("backward")
    return _nonlinear(module, grad_input, grad_output)


OPS = {TripAct: tripact_rule, BadReg: _nonlinear}


class Net(torch.nn.Module):
    def __init__(self):
        super().__init__()
        g = torch.Generator().manual_seed(11)
        # the non-linearities sit at different nesting depths (a cleanup that only visits direct children must be noticed)
        self.stem = torch.nn.Sequential(torch.nn.Conv1d(4, 3, 3), BadReg())
        self.mid = torch.nn.Sequential(torch.nn.Sequential(torch.nn.Conv1d(3, 2, 1), TripAct()))
        self.bn = torch.nn.BatchNorm1d(2)
        self.lin = torch.nn.Linear(12, 2)
        self.alias = torch.nn.ModuleList([self.stem[1]])      # the same activation instance reachable through a second parent
        self._pos = None                                       # a tensor built lazily inside forward and kept (positional weights)
        with torch.no_grad():
            for p in self.parameters():
                p.copy_(torch.randn(p.shape, generator=g) * 0.7)
            self.bn.running_mean.copy_(torch.tensor([0.1, -0.2])); self.bn.running_var.copy_(torch.tensor([1.3, 0.8]))

    def forward(self, X, arg=None):
        tick("forward")
        L = X.shape[-1]
        if self._pos is None or self._pos.shape[-1] != L:
            self._pos = torch.linspace(0.5, 1.5, L).reshape(1, 1, L)
        h = self.mid(self.stem(X * self._pos))
        y = self.lin(self.bn(h).flatten(1))
        if arg is not None:
            y = y + arg.reshape(-1, 1).type(y.dtype)
        return y


def onehot(n, L, seed):
    g = torch.Generator().manual_seed(seed)
    idx = torch.randint(0, 4, (n, L), generator=g)
    return torch.nn.functional.one_hot(idx, 4).permute(0, 2, 1).float()


X4 = onehot(4, 8, 5)
PROBE = onehot(4, 8, 9)


def ref_fn(X, n=1, random_state=None, **kw):
    tick("genrefs")
    return dinucleotide_shuffle(X, n=n, random_state=7 if random_state is None else random_state)


def alpha(model):
    """What a later user of the model can observe (trips disarmed by the caller)."""
    nh = 0
    for m in model.modules():
        nh += len(m._forward_hooks) + len(m._forward_pre_hooks) + len(m._backward_hooks) + len(getattr(m, "_backward_pre_hooks", {}))
    sd = base.crc(b"".join(v.detach().cpu().numpy().tobytes() for v in model.state_dict().values()))
    was = [m.training for m in model.modules()]
    model.eval()
    saved_t, saved_c = dict(TRIP), dict(COUNT)
    TRIP.clear()
    try:
        P = PROBE.clone().requires_grad_()
        out = model(P)
        grads = torch.autograd.grad(out.sum(), [P] + list(model.parameters()), allow_unused=True)
        po = base.tdig(out)
        pg = base.crc(b"".join(g.detach().numpy().tobytes() for g in grads if g is not None))
    except Exception as e:
        po, pg = -1, base.crc(type(e).__name__.encode())
    finally:
        TRIP.update(saved_t); COUNT.clear(); COUNT.update(saved_c)
        for m, f in zip(model.modules(), was):
            m.training = f
    return dict(hooks=nh, sd=sd, po=po, pg=pg, training=bool(was[0]), modes=was)


_ALT = [0, 0]


def plan(func, crash):
    """crash = [run, kind, batch] -> (trips, call variations) or None when the point cannot be injected from outside."""
    r, kind, b = crash
    prog = PROGRAMS[func]
    var = {}
    if kind == "none":
        return {}, var
    before = sum(nb for (k, nb) in prog[:r - 1])
    hbefore = sum(nb for (k, nb) in prog[:r - 1] if k == "H")
    if b > prog[r - 1][1]:
        return None
    if kind == "forward":
        if (_ALT[0] + r + b) % 2:          # the same step failing inside a hooked activation instead of at the top of the model
            return {"actforward": before + b}, var
        return {"forward": before + b}, var
    if kind == "backward":
        return {"backward": hbefore + b}, var
    if kind == "genrefs":
        cpb = REF_CALLS_PER_BATCH[func]
        return {"genrefs": cpb * (hbefore + b - 1) + 1}, var
    if kind == "project":
        return {"project": hbefore + b}, var
    if kind == "register":
        return {"register": r}, var
    if kind == "slice" and r == 1:
        var["short_args"] = b - 1            # args with b-1 rows: the batch holding example b-1 cannot be sliced
        return {}, var
    if kind == "reqgrad" and r == 1 and b == 1:
        var["int_x"] = True
        return {}, var
    if kind == "delta" and r == 1 and b == 1:
        if _ALT[0] % 2:          # the convergence warning itself, turned into an error by the caller's warning filter
            var["warn_error"] = True
        else:
            var["bad_target"] = True
        return {}, var
    return None


def do_call(model, func, var):
    X2, X1 = X4[:2], X4[:1]
    dkw = dict(n_shuffles=2, references=ref_fn, additional_nonlinear_ops=OPS)
    if var.get("bad_target"):
        dkw["target"] = 5
    if var.get("warn_error"):
        dkw["warning_threshold"] = -1.0
    args = None
    if "short_args" in var:
        args = (torch.arange(var["short_args"], dtype=torch.float32),)
    if var.get("int_x"):
        X2 = X2.type(torch.int8)
    if func == "predict":
        return predict(model, X4, batch_size=2, device="cpu")
    if func == "deep_lift_shap":
        return deep_lift_shap(model, X2, args=args, batch_size=2, device="cpu", **dkw)
    if func == "saturation_mutagenesis":
        return saturation_mutagenesis(model, X1, batch_size=16, device="cpu")
    if func == "marginalize":
        return marginalize(model, X4, "AC", batch_size=2, device="cpu")
    if func == "marginalize_dls":
        return marginalize(model, X2, "AC", func=deep_lift_shap, args=args, batch_size=2, device="cpu", **dkw)
    if func == "ablate":
        return ablate(model, X2, 2, 6, n=2, random_state=3, batch_size=2, device="cpu")
    if func == "ablate_dls":
        return ablate(model, X2, 2, 6, n=1, random_state=3, func=deep_lift_shap, args=args, batch_size=2, device="cpu",
                      additional_func_kwargs=dict(dkw))
    if func == "space":
        return space(model, X4, ["A", "C"], [[1]], batch_size=2, device="cpu")
    if func == "variant_effect":
        return substitution_effect(model, X4, torch.tensor([[0, 1, 2], [3, 4, 0]]), batch_size=2, device="cpu")
    if func == "apply_product":
        return apply_product(predict, model, X2, args=(torch.tensor([1.0, 2.0]),), batch_size=2, device="cpu")
    if func == "greedy_substitution":
        return greedy_substitution(model, X1, ["AC"], torch.tensor([[1.0, -1.0]]), max_iter=1, batch_size=4, device="cpu")
    raise RuntimeError(func)


def digest(res):
    if isinstance(res, torch.Tensor):
        return base.tdig(res)
    if isinstance(res, (list, tuple)):
        return base.crc(repr([digest(r) for r in res]).encode())
    return base.crc(repr(res).encode())


def run_one(model, func, crash):
    p = plan(func, crash)
    if p is None:
        return None
    trips, var = p
    arm(**trips)
    orig = dls_mod.hypothetical_attributions

    def tripping_hyp(*a, **k):
        tick("project")
        return orig(*a, **k)
    dls_mod.hypothetical_attributions = tripping_hyp
    try:
        import warnings
        with warnings.catch_warnings():
            if var.get("warn_error"):
                warnings.simplefilter("error")
            res = do_call(model, func, var)
        out, d = "returned", digest(res)
    except Exception as e:
        out, d = "raised", base.crc(type(e).__name__.encode())
    finally:
        dls_mod.hypothetical_attributions = orig
        counts = dict(COUNT)
        arm()
    return out, d, counts


BASE = None


def base_model(kind=0):
    """kind 0: a root in eval mode with a sub-module still in training mode (e.g. a freshly attached head): every call must run
    the WHOLE model in eval mode, or BatchNorm's buffers change.  kind 1: a root in training mode with a frozen (eval) BatchNorm,
    the usual fine-tuning recipe: a call may leave modules in eval mode but must not switch the frozen one to training."""
    global BASE
    if BASE is None:
        torch.manual_seed(0)
        BASE = Net()
    m = copy.deepcopy(BASE)
    if kind == 0:
        m.eval(); m.bn.train()
    else:
        m.train(); m.bn.eval()
    return m


def run_history(hist):
    kind = base.crc(repr(hist).encode()) % 2
    shared = base_model(kind)
    a0 = alpha(shared)
    evs = []
    before = a0["modes"]
    for hi, (func, crash) in enumerate(hist):
        _ALT[0] = base.crc(repr(hist).encode()) + hi          # which realisation of a crash point: the same for the fresh and the shared run
        fresh = base_model(kind)          # never ran a forward pass: whatever it builds lazily is built inside the call
        rf = run_one(fresh, func, crash)
        if rf is None:
            evs.append(dict(func=func, crash=crash, realised=False))
            continue
        af = alpha(fresh)
        rs = run_one(shared, func, crash)
        a1 = alpha(shared)
        woke = any(now and not was for now, was in zip(a1["modes"], before)) or any(
            now and not was for now, was in zip(af["modes"], a0["modes"]))
        evs.append(dict(func=func, crash=crash, realised=True, out=rs[0], res=rs[1], res_fresh=rf[1], out_fresh=rf[0],
                        hooks=a1["hooks"], sd_same=a1["sd"] == a0["sd"], probe_same=(a1["po"], a1["pg"]) == (a0["po"], a0["pg"]),
                        fresh_probe_same=(af["po"], af["pg"]) == (a0["po"], a0["pg"]), woke=bool(woke), start_kind=kind,
                        training=a1["training"], counts=rs[2]))
        before = a1["modes"]
    return evs


def handler(case):
    mode = case.get("mode", "hist")
    if mode == "dry":          # verify that PROGRAMS mirrors the code: forwards / backward-rule calls of a clean call
        out = {}
        for f, prog in PROGRAMS.items():
            r = run_one(base_model(), f, [0, "none", 0])
            out[f] = dict(out=r[0], counts=r[2], want_forward=sum(nb for _, nb in prog),
                          want_backward=sum(nb for k, nb in prog if k == "H"))
        return {"dry": out}
    evs = []
    for h in case["hists"]:
        evs.append(run_history(h))
    return {"hists": evs}


if __name__ == "__main__":
    base.serve(handler)

"""extras worker of C16: read_vcf on generated VCF files (outside the listed properties)."""
import os
import random
import tempfile

from harness.impl import base
from tangermeme.io import read_vcf

TMP = base.mkd("x16-")
WORDS = ["chr1", "chr2", "chrX", "rs12", "rs7", ".", "A", "C", "G", "T", "AT", "PASS", "q10", "DP=14", "AF=0.5;DB", "GT:GQ", "GT", "50", "99",
         "0|0:48", "1|0:48", "1/1:43", "NS=3"]
HASHED = ["id#7", "NOTE=a#b", "#late"]


def handler(case):
    rng = random.Random(case["seed"])
    evs = []
    tok = {}

    def t(s):
        return tok.setdefault(s, len(tok) + 1000)
    for k in range(case["n"]):
        lines, text = [], []
        hashed = k % 5 == 4
        for _ in range(rng.randint(0, 3)):
            text.append("##meta=%d" % rng.randint(0, 9)); lines.append(dict(k="meta", f=[]))
        if rng.random() < 0.8:
            text.append("#CHROM\tPOS\tID\tREF\tALT\tQUAL\tFILTER\tINFO\tFORMAT\tS1"); lines.append(dict(k="meta", f=[]))
        nsamp = rng.randint(0, 3)
        for _ in range(rng.randint(0, 6)):
            r = rng.random()
            if r < 0.1:
                text.append(""); lines.append(dict(k="blank", f=[])); continue
            if r < 0.15:
                text.append("##late meta"); lines.append(dict(k="meta", f=[])); continue
            pos = rng.randint(1, 10 ** 6)
            f = [rng.choice(WORDS[:3]), str(pos)] + [rng.choice(WORDS) for _ in range(7 + nsamp)]
            if hashed and rng.random() < 0.6:
                f[rng.choice([2, 7])] = rng.choice(HASHED[:2])
            text.append("\t".join(f))
            lines.append(dict(k="data", f=[t(f[0]), pos] + [t(v) for v in f[2:]]))
        path = os.path.join(TMP, "v%d.vcf" % os.getpid())
        with open(path, "w") as fh:
            fh.write("\n".join(text) + ("\n" if (text and rng.random() < 0.8) else ""))
        ev = dict(op="vcf", lines=lines, rows=[], hash=bool(hashed and any("#" in x for ln in text if not ln.startswith("#") for x in ln.split("\t"))))
        try:
            df = read_vcf(path)
            rows = []
            for r in df.itertuples(index=False):
                rows.append([t(str(r[0])), int(r[1])] + [t(str(v)) for v in r[2:]])
            ev["rows"] = rows
            ev["st"] = "ok"
        except Exception as e:
            ev["st"] = "err"; ev["kind"] = type(e).__name__
        finally:
            os.remove(path)
        evs.append(ev)
    return {"events": evs}


if __name__ == "__main__":
    base.serve(handler)

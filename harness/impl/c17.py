"""C17 worker: realises a (loci per GC bin, eligible background per GC bin) histogram from Match.tla as a synthetic genome
(tiles with designed GC / N / signal content), runs extract_matching_loci and reports the returned loci with the tile facts."""
import os
import random
import tempfile

import numpy
import pandas

from harness import tlaval
from harness.impl import base
from tangermeme.match import extract_matching_loci

W = 8
TMP = base.mkd("c17-")
MAX_N = 0.25          # at most 2 N per tile of 8
BINW = 0.25           # 5 GC bins; a tile with k G/C characters is in bin (k+1)//2


def tile_seq(rng, gc, n_n=0):
    chars = ["G" if rng.random() < 0.5 else "C" for _ in range(gc)] + ["A" if rng.random() < 0.5 else "T" for _ in range(W - gc - n_n)] \
        + ["N"] * n_n
    rng.shuffle(chars)
    return "".join(chars)


def build(loci0, bg0, variant):
    rng = random.Random(variant)
    with_bw = variant % 3 != 0
    outw = W if variant % 3 == 1 else 4
    beta0 = with_bw and variant % 5 == 4         # signal_beta = 0: the bound is exactly 0, only tiles without any signal are eligible
    exact_bounds = (variant // 3) % 2 == 0
    blocks = []         # each block: list of tiles (dicts)

    def gc_for(b):
        return rng.choice([0] if b == 0 else [2 * b - 1, 2 * b])
    for b, n in enumerate(loci0):
        for _ in range(n):
            blk = [dict(kind="locus", gc=gc_for(b), n=0, sig="locus")]
            if exact_bounds:      # the locus touches the next tile too: that tile is masked whatever it holds
                blk.append(rng.choice([dict(kind="dead", gc=0, n=W, sig="low"), dict(kind="bgmasked", gc=gc_for(rng.randrange(3)), n=0, sig="low")]))
            blocks.append(blk)
    for b, n in enumerate(bg0):
        for _ in range(n):
            blocks.append([dict(kind="bg", gc=gc_for(b), n=rng.choice([0, 0, 1, 2]) if b > 0 else 0,
                                sig=(rng.choice(["zero", "zero", "low"]) if beta0 else rng.choice(["low", "flank"]) if outw < W else "low"))])
    for _ in range(rng.randint(0, 3)):      # decoys: too many N
        blocks.append([dict(kind="ndecoy", gc=rng.randint(0, 5), n=3, sig="low")])
    if with_bw:
        for _ in range(rng.randint(1, 3)):  # decoys: too much signal
            blocks.append([dict(kind="sdecoy", gc=gc_for(rng.randrange(3)), n=0, sig="high")])
    if rng.random() < 0.3:                  # an input locus that is not usable (N-heavy): masks its tile, adds nothing to the histogram
        blocks.append([dict(kind="badlocus", gc=1, n=3, sig="locus"), dict(kind="dead", gc=0, n=W, sig="low")])
    rng.shuffle(blocks)
    nchrom = 1 if len(blocks) < 4 or rng.random() < 0.4 else rng.choice([2, 3, 3, 4][:max(1, min(4, len(blocks) // 2))])
    chroms = [[] for _ in range(nchrom)]
    for k, blk in enumerate(blocks):
        chroms[k % nchrom] += blk
    # every chromosome needs at least one input locus (background is taken from the chromosomes of the loci): pass chroms explicitly
    names = ["chr%d" % (i + 1) for i in range(nchrom)]
    fa_lines, bw_vals, loci_rows, facts, lens = [], [], [], [], []
    for ci, tiles in enumerate(chroms):
        seq, vals = "", []
        for t in tiles:
            t["seq"] = tile_seq(rng, min(t["gc"], W - t["n"]), t["n"])
            seq += t["seq"]
            lf, rf = (W - outw) // 2, (W - outw + 1) // 2
            v = [0.0] * W
            if t["sig"] == "locus":
                for q in range(lf, W - rf):
                    v[q] = 100.0 / outw
            elif t["sig"] == "zero":
                pass
            elif t["sig"] == "high":
                for q in range(lf, W - rf):
                    v[q] = 80.0 / outw
            elif t["sig"] == "flank":      # all signal in the flanks: must not count when out_window < in_window
                for q in list(range(0, lf)) + list(range(W - rf, W)):
                    v[q] = 50.0
                for q in range(lf, W - rf):
                    v[q] = 8.0 / outw
            else:
                for q in range(lf, W - rf):
                    v[q] = 8.0 / outw
            vals += v
        tail = rng.randint(0, W - 1)
        edge = None
        if rng.random() < 0.4:
            # an input locus at the very end of the chromosome: its resized window runs off the end, so it is not usable and adds
            # nothing to the histogram -- but the last complete tile is touched by it and must not be returned
            b = rng.randrange(3)
            t = dict(kind="bgedge", gc=gc_for(b), n=0, sig="low")
            t["seq"] = tile_seq(rng, t["gc"], 0)
            tiles.append(t); seq += t["seq"]
            lf, rf = (W - outw) // 2, (W - outw + 1) // 2
            vals += [0.0] * lf + [8.0 / outw] * (W - lf - rf) + [0.0] * rf
            tail = rng.randint(1, 2)
            edge = (len(tiles) - 1) * W + 6
        seq += "".join(rng.choice("ACGT") for _ in range(tail)); vals += [0.0] * tail
        if edge is not None:
            loci_rows.append([names[ci], edge, len(seq)])
        lens.append(len(seq))
        fa_lines.append(">" + names[ci]); fa_lines.append(seq)
        bw_vals.append(vals)
        masked = set()
        for r in loci_rows:
            if r[0] == names[ci]:
                masked.update(range(r[1] // W, r[2] // W + 1))
        for k, t in enumerate(tiles):
            if t["kind"] in ("locus", "badlocus"):
                s, e = (k * W, (k + 1) * W) if exact_bounds else (k * W + 2, (k + 1) * W - 2)
                loci_rows.append([names[ci], s, e])
                masked.update(range(s // W, e // W + 1))
        f = []
        for k, t in enumerate(tiles):
            gcn = sum(ch in "GC" for ch in t["seq"])
            nn = t["seq"].count("N")
            sigok = True
            if with_bw:
                central = sum(vals[k * W + (W - outw) // 2: k * W + W - (W - outw + 1) // 2])
                sigok = central <= (0.0 if beta0 else 50.0) + 1e-9
            f.append([(gcn + 1) // 2, nn <= 2, bool(sigok), k in masked, t["kind"] == "locus"])
        facts.append(f)
    rng.shuffle(loci_rows)
    return dict(names=names, fa="\n".join(fa_lines) + "\n", bw=bw_vals if with_bw else None, loci=loci_rows, facts=facts, lens=lens,
                outw=outw, beta=0.0 if beta0 else 0.5)


def run_case(loci0, bg0, variant):
    g = build(loci0, bg0, variant)
    tag = "%d_%d" % (os.getpid(), variant)
    # ONE FASTA path per process, rewritten in place for every case and its .fai left behind (a genome file that was updated):
    # whatever is remembered about the path -- an index on disk, chromosome sizes in memory -- must not outlive the content
    fa = os.path.join(TMP, "g%d.fa" % os.getpid())
    base.fresh_write(fa, g["fa"])
    bwp = None
    if g["bw"] is not None:
        import pyBigWig
        bwp = os.path.join(TMP, "s%s.bw" % tag)
        bw = pyBigWig.open(bwp, "w")
        bw.addHeader(list(zip(g["names"], g["lens"])))
        for nm, vals in zip(g["names"], g["bw"]):
            bw.addEntries(nm, 0, values=[float(v) for v in vals], span=1, step=1)
        bw.close()
    ev = dict(op="match", tiles=g["facts"], lens=g["lens"], w=W, nbins=5, ret=[], ret2=[], loci=[[g["names"].index(r[0]), r[1], r[2]] for r in g["loci"]],
              outw=g["outw"], bigwig=bwp is not None, variant=variant, loci0=loci0, bg0=bg0)
    df = pandas.DataFrame(g["loci"], columns=["chrom", "start", "end"])
    if variant % 4 == 1 and len(df) > 1:        # a table that was sorted / filtered without reset_index: labels are not 0..n-1 in order
        df = df.sort_values(["start", "chrom"])
        if variant % 8 == 1:
            df.index = [10 + 3 * k for k in range(len(df))][::-1]
    if not len(df):
        ev["st"] = "skip"
        return ev
    try:
        outs = []
        for nj in (1, 2 if len(g["names"]) < 4 or variant % 2 else 3):
            r = extract_matching_loci(df, fa, in_window=W, out_window=g["outw"], max_n_perc=MAX_N, gc_bin_width=BINW, bigwig=bwp,
                                      signal_beta=g["beta"], chroms=list(g["names"]), random_state=variant, n_jobs=nj)
            outs.append([[g["names"].index(c), int(s), int(e)] for c, s, e in zip(r["chrom"], r["start"], r["end"])])
        ev["ret"], ev["ret2"] = outs
        ev["st"] = "ok"
    except Exception as e:
        ev["st"] = "err"; ev["msg"] = "%s: %s" % (type(e).__name__, str(e)[:120])
    finally:
        for p in (bwp,):
            if p and os.path.exists(p):
                os.remove(p)
    return ev


def handler(case):
    mode = case.get("mode", "m1")
    if mode == "m1":
        st = tlaval.parse_state_body(case["state"])
        loci0 = list(st["loci0"]) + [0, 0]; bg0 = list(st["bg0"]) + [0, 0]
        if sum(loci0) == 0:
            return {"v": "", "op": "skip", "zone": "na"}
        ev = run_case(loci0[:5], bg0[:5], case["id"])
        ev.pop("msg", None)
        return {"v": "", "op": "match", "zone": "fact", "carry": ev, "nontrivial": sum(loci0) > sum(min(a, b) for a, b in zip(loci0, bg0))}
    if mode == "m2":
        rng = random.Random(case["seed"])
        evs = []
        for _ in range(case["n"]):
            loci0 = [rng.choice([0, 0, 1, 2, 3, 5]) for _ in range(5)]
            bg0 = [rng.choice([0, 0, 1, 2, 4, 6]) for _ in range(5)]
            if sum(loci0) == 0:
                loci0[rng.randrange(5)] = 2
            evs.append(run_case(loci0, bg0, rng.randrange(100000)))
        return {"events": evs}
    if mode == "ev":
        c = case["call"]
        return {"ev": run_case(c["loci0"], c["bg0"], c["variant"])}


if __name__ == "__main__":
    base.serve(handler)

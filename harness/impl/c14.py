"""C14 worker: tomtom() on small grid PWMs; the integerised similarity matrix comes from the code's own integeriser and is
handed, with the reported results, to TomtomScore_Oracle."""
import math
import random

import numpy
import torch

from harness.impl import base
import tangermeme.tools.tomtom as TT
from tangermeme.tools.tomtom import tomtom


def pair_pwm(rng, L):
    """columns (a, a, b, b)/8 with a + b = 4 (in a random arrangement shared by the whole case): all pairwise Euclidean
    distances are multiples of 1/4, so scaled similarities hit exact .5 ties"""
    return [[(a, a, 4 - a, 4 - a)[k] for k in range(4)] for a in [rng.randint(0, 4) for _ in range(L)]]


def grid_pwm(rng, L):
    cols = []
    for _ in range(L):
        r = rng.random()
        if r < 0.25:
            v = [0, 0, 0, 0]; v[rng.randrange(4)] = 8
        elif r < 0.4:
            v = [2, 2, 2, 2]
        else:
            cuts = sorted(rng.randint(0, 8) for _ in range(3))
            v = [cuts[0], cuts[1] - cuts[0], cuts[2] - cuts[1], 8 - cuts[2]]
            rng.shuffle(v)
        cols.append(v)
    return cols            # list of L columns, each 4 ints summing to 8


def to_arr(cols):
    return numpy.array(cols, dtype=numpy.float64).T / 8.0


def integerise(Q, Ts, rc, n_bins, n_median_bins):
    """mirror of tomtom()'s preprocessing (no hashing), then the code's own integeriser"""
    Ts = list(Ts)
    if rc:
        Ts = Ts + [t[::-1, ::-1] for t in Ts]
    T = numpy.ascontiguousarray(numpy.concatenate(Ts, axis=-1))
    Qc = numpy.ascontiguousarray(Q)
    nq = Q.shape[1]
    nt = T.shape[1]
    gamma = numpy.zeros((nt, nq)); gamma_int = numpy.zeros((nt, nq), dtype="int64")      # the mirror keeps the integers exactly (no narrow dtype)
    f = numpy.zeros((nq, n_bins + 1)); med = numpy.zeros(nq); mb = numpy.zeros((n_median_bins, 2))
    zr = []
    for i in range(nq):
        z = [-math.sqrt(max(0.0, float(((Qc[:, i] - T[:, j]) ** 2).sum()))) for j in range(nt)]
        zr.append(max(z) - min(z))
    if min(zr) < 1e-9:
        return None          # all similarities of a query column equal: the integeriser divides by zero (outside the domain)
    off = TT._integer_distances_and_histogram(Qc, T, gamma, gamma_int, f, med, mb, (Qc ** 2).sum(axis=0), (T ** 2).sum(axis=0),
                                               numpy.ones(nt, dtype="int64"), 0, nq, n_bins)
    off = int(off)
    G = [[int(gamma_int[j, nq - 1 - i]) + off for i in range(nq)] for j in range(nt)]
    # the scaled similarity the integeriser rounds, where it is EXACTLY a multiple of 1/2 in floating point (integers and ties);
    # -1 elsewhere.  medians already include the integer shift; bin_scale = floor(n_bins / max(gamma - medians)).
    d = gamma - med[None, :]
    s0 = math.floor(n_bins / d.max())
    # bin_scale is not returned by the integeriser; it is accepted only if exactly one candidate reproduces every entry that is
    # NOT an exact multiple of 1/2 (those do not depend on the tie rule); otherwise the rounding rule is not judged for this case
    fits = []
    for s in (s0 - 1, s0, s0 + 1):
        if s >= 1 and all(math.floor(d[j, i] * s + 0.5) == G[j][i] for j in range(nt) for i in range(nq)
                          if not float(2 * d[j, i] * s).is_integer()):
            fits.append(s)
    if len(fits) == 1:
        scale = fits[0]
        V2 = [[(int(2 * d[j, i] * scale) if float(2 * d[j, i] * scale).is_integer() else -1) for i in range(nq)] for j in range(nt)]
    else:
        V2 = [[-1] * nq for _ in range(nt)]
    # is the integerisation robust against last-bit noise (summation order of the binned median)?  the integer shift is
    # floor(min(gamma - median)) and the scale floor(n_bins / range): both flip when their argument sits on an integer
    frac = float(d.min())                      # = z_min - floor(z_min), in [0, 1)
    ratio = n_bins / float(d.max())
    robust = 1e-9 < frac < 1 - 1e-9 and abs(ratio - round(ratio)) > 1e-9
    return G, off, [t.shape[1] for t in Ts], V2, robust


def hash_injective(Ts, n_target_bins):
    """the documented column hash (each row scaled to 0..n_target_bins-1 and rounded): do distinct pooled columns get distinct codes?"""
    T = numpy.concatenate(Ts, axis=-1)
    lo = T.min(axis=-1, keepdims=True); hi = T.max(axis=-1, keepdims=True)
    hi = numpy.where(hi == lo, lo + 1, hi)
    codes = numpy.around((T - lo) / (hi - lo) * (n_target_bins - 1)).astype(numpy.int64)
    cols = {}
    for j in range(T.shape[1]):
        key = tuple(codes[:, j])
        if key in cols and not numpy.array_equal(cols[key], T[:, j]):
            return False
        cols[key] = T[:, j]
    # keep away from rounding ties of the hash itself
    frac = (T - lo) / (hi - lo) * (n_target_bins - 1)
    return bool((numpy.abs(frac - numpy.floor(frac) - 0.5) > 1e-6).all())


def hashed_integerisation_same(Q, Ts, rc, n_bins, n_target_bins, G, off):
    """the code's integeriser on the hashed representation (unique pooled columns with multiplicities), expanded back: is it the
    integerisation (G, off) of the unhashed call?  It need not be: the binned median of k equal values is (k*v)/k, an ulp away
    from v, and floor() of a minimum that is exactly 0 then flips the integer shift -- the scores of the two calls are then on
    different scales and are not comparable (the statement fixes scores only relative to the integerisation used)."""
    Ts = list(Ts)
    if rc:
        Ts = Ts + [t[::-1, ::-1] for t in Ts]
    T = numpy.ascontiguousarray(numpy.concatenate(Ts, axis=-1))
    lo = T.min(axis=-1, keepdims=True); hi = T.max(axis=-1, keepdims=True)
    hi = numpy.where(hi == lo, lo + 1, hi)
    codes = numpy.around((T - lo) / (hi - lo) * (n_target_bins - 1))
    codes = codes.T.dot(n_target_bins ** numpy.arange(len(T))[:, None])
    _, idx, inv, cnt = numpy.unique(codes.flatten(), return_index=True, return_inverse=True, return_counts=True)
    Tu = numpy.ascontiguousarray(T[:, idx])
    Qc = numpy.ascontiguousarray(Q)
    nq, nu = Q.shape[1], Tu.shape[1]
    gamma = numpy.zeros((nu, nq)); gi = numpy.zeros((nu, nq), dtype="int64")
    f = numpy.zeros((nq, n_bins + 1)); med = numpy.zeros(nq); mb = numpy.zeros((1000, 2))
    o = int(TT._integer_distances_and_histogram(Qc, Tu, gamma, gi, f, med, mb, (Qc ** 2).sum(axis=0), (Tu ** 2).sum(axis=0),
                                                 cnt.astype("int64"), 0, nq, n_bins))
    Gh = [[int(gi[inv[j], nq - 1 - i]) + o for i in range(nq)] for j in range(T.shape[1])]
    return o == off and Gh == G


def gen_case(rng, cid, big=False):
    if big:
        nq = rng.randint(2, 25); tl = [rng.randint(1, 25) for _ in range(rng.randint(1, 3))]
        rc = rng.random() < 0.5
    else:
        rc = rng.random() < 0.25
        nq = rng.randint(1, 3)
        if rc:
            tl = [rng.randint(1, 3)]
        else:
            tl = [rng.randint(1, 3) for _ in range(rng.randint(1, 2))]
            while sum(tl) > 6:
                tl[-1] -= 1
    mk = pair_pwm if rng.random() < 0.25 else grid_pwm
    q = mk(rng, nq)
    ts = [mk(rng, L) for L in tl]
    self_idx = 0
    if rng.random() < 0.3:
        k = rng.randrange(len(ts)); ts[k] = [list(c) for c in q]; self_idx = k + 1
    return dict(id=cid, q=q, ts=ts, rc=rc, n_bins=rng.choice([10, 20, 50, 100, 200]) if big else rng.choice([10, 20, 30, 50, 100, 200]),
                checkp=not big, self=self_idx)


def wide_case(rng, cid):
    """many score bins with similarities spread over the whole range: the pooled target columns are dominated by one letter the
    query never uses, so every query column's median similarity is its minimum, the offset is 0 and integerised similarities
    reach n_score_bins - 1 (beyond a narrow integer type)"""
    dom = rng.randrange(4)
    others = [k for k in range(4) if k != dom]

    def onehot(k):
        v = [0, 0, 0, 0]; v[k] = 8
        return v
    nq = rng.randint(2, 6)
    q = [onehot(rng.choice(others)) for _ in range(nq)]
    ts = [[list(c) for c in q]]
    for _ in range(rng.randint(1, 2)):
        ts.append([onehot(dom) for _ in range(rng.randint(nq + 1, 2 * nq))])
    if rng.random() < 0.5:
        ts.append([onehot(rng.choice(others)) for _ in range(rng.randint(1, 2))])
    rng.shuffle(ts)
    return dict(id=cid, q=q, ts=ts, rc=False, n_bins=rng.choice([150, 200]), checkp=False, self=0)


def handler(case):
    rng = random.Random(case["seed"])
    out = []
    for k in range(case["n"]):
        if k % 10 == 3:
            c = wide_case(rng, case["id"] * 100000 + k)
        else:
            c = gen_case(rng, case["id"] * 100000 + k, big=case.get("big", False) and (k % 2 == 1 if case["n"] > 100 else k % 5 == 4))
        Q = to_arr(c["q"]); Ts = [to_arr(t) for t in c["ts"]]
        ig = integerise(Q, Ts, c["rc"], c["n_bins"], 1000)
        if ig is None:
            out.append(dict(id=c["id"], skipped="degenerate"))
            continue
        G, u, tlens, V2, robust = ig
        tcols = [col for t in c["ts"] for col in t]
        if c["rc"]:
            tcols = tcols + [col[::-1] for t in c["ts"] for col in t[::-1]]
        rec = dict(id=c["id"], nq=len(c["q"]), G=G, u=u, tlens=tlens, cnt=[1] * len(G), rc=c["rc"], qcols=c["q"], tcols=tcols,
                   V2=V2, checkp=c["checkp"], self=c["self"] if (c["self"] and len(c["ts"][c["self"] - 1]) == len(c["q"])) else 0,
                   n_bins=c["n_bins"])
        try:
            r = tomtom([Q], [torch.from_numpy(t.copy()) for t in Ts], n_score_bins=c["n_bins"], n_target_bins=None,
                       reverse_complement=[c["rc"], numpy.bool_(c["rc"]), int(c["rc"])][k % 3], n_jobs=1)
            rec["st"] = "ok"
            rec["p"] = [float(v) for v in r[0, 0]]
            rec["score"] = [float(v) for v in r[1, 0]]
            rec["offset"] = [float(v) for v in r[2, 0]]
            rec["overlap"] = [float(v) for v in r[3, 0]]
            rec["strand"] = [float(v) for v in r[4, 0]]
            # reverse-complementing the targets may only change the reported strand
            if c["rc"]:
                r2 = tomtom([Q], [torch.from_numpy(t[::-1, ::-1].copy()) for t in Ts], n_score_bins=c["n_bins"], n_target_bins=None,
                            reverse_complement=True, n_jobs=1)
                rec["rc_p_same"] = bool(torch.allclose(r2[0], r[0], rtol=1e-9, atol=1e-12))
                rec["rc_score_same"] = bool((r2[1] == r[1]).all())
            # the SAME list object again after it was changed in place (two targets swapped): results follow the content
            if k % 3 == 0 and len(Ts) >= 2 and Ts[0].shape != Ts[-1].shape:
                tl = [torch.from_numpy(t.copy()) for t in Ts]
                kws = dict(n_score_bins=c["n_bins"], n_target_bins=None, reverse_complement=c["rc"], n_jobs=1)
                ra = tomtom([Q], tl, **kws)
                tl[0], tl[-1] = tl[-1], tl[0]
                rb = tomtom([Q], tl, **kws)
                perm = list(range(len(tl))); perm[0], perm[-1] = perm[-1], perm[0]
                rec["inplace_same"] = bool(torch.equal(ra[:, 0], r[:, 0])) and bool(torch.equal(rb[:, 0][:, perm], r[:, 0]))
            # column hashing, where it is injective (distinct pooled target columns get distinct codes), must not change anything:
            # the same call with n_target_bins=100, then with the target list reversed, then reverse-complemented -- all in this
            # process, one after the other (same shapes and sums, different column order)
            if robust and hash_injective(Ts, 100) and hashed_integerisation_same(Q, Ts, c["rc"], c["n_bins"], 100, G, u):
                rec["hashed"] = 1
                kwh = dict(n_score_bins=c["n_bins"], n_target_bins=100, reverse_complement=c["rc"], n_jobs=1)
                for name, Tv, perm in (("hash_same", Ts, False), ("hash_rev_same", Ts[::-1], True),
                                       ("hash_rc_same", [t[::-1, ::-1] for t in Ts], False)):
                    if name == "hash_rc_same" and not c["rc"]:
                        continue
                    rh = tomtom([Q], [torch.from_numpy(t.copy()) for t in Tv], **kwh)
                    ph, sh = rh[0, 0], rh[1, 0]
                    if perm:
                        ph, sh = ph.flip(0), sh.flip(0)
                    rec[name] = bool(torch.allclose(ph, r[0, 0], rtol=1e-9, atol=1e-12)) and bool((sh == r[1, 0]).all())
        except Exception as e:
            rec["st"] = "err"; rec["msg"] = "%s: %s" % (type(e).__name__, str(e)[:80])
        out.append(rec)
    return {"cases": out}


if __name__ == "__main__":
    base.serve(handler)

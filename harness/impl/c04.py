"""C04 / C05 worker: builds the torch network of a case, runs deep_lift_shap (raw and processed), returns floats."""
import warnings

import torch

from harness.impl import base
from tangermeme.deep_lift_shap import deep_lift_shap
from tangermeme.ersatz import dinucleotide_shuffle

POLY = {"sq": lambda self, z: z * z, "cube": lambda self, z: z * z * z - z}


class CustomSq(torch.nn.Module):
    def forward(self, z):
        return z * z


class CustomCube(torch.nn.Module):
    def forward(self, z):
        return z * z * z - z


def build(case):
    mods = []
    patched = []
    for l in case["layers"]:
        k = l["k"]
        ws = l["ws"][0] / l["ws"][1]
        if k == "conv":
            W = torch.tensor(l["W"], dtype=torch.float64) * ws
            m = torch.nn.Conv1d(W.shape[1], W.shape[0], W.shape[2], stride=l["stride"], padding=l["pad"], dilation=l["dil"]).double()
            with torch.no_grad():
                m.weight.copy_(W); m.bias.copy_(torch.tensor(l["b"], dtype=torch.float64) * ws)
        elif k == "linear":
            W = torch.tensor(l["W"], dtype=torch.float64) * ws
            m = torch.nn.Linear(W.shape[1], W.shape[0]).double()
            with torch.no_grad():
                m.weight.copy_(W); m.bias.copy_(torch.tensor(l["b"], dtype=torch.float64) * ws)
        elif k == "flatten":
            m = torch.nn.Flatten()
        elif k == "avgpool":
            m = torch.nn.AvgPool1d(l["size"])
        elif k == "maxpool":
            m = torch.nn.MaxPool1d(l["size"], padding=l.get("pad", 0), ceil_mode=bool(l.get("ceil", 0)))
        elif k == "act":
            slope = l["slope"][0] / l["slope"][1]
            if l["cls"] == "Custom":
                m = CustomSq() if l["g"] == "sq" else CustomCube()
                mods.append(m)
                continue
            cls = getattr(torch.nn, l["cls"])
            if l["g"] in POLY:
                patched.append((cls, cls.forward))
                cls.forward = POLY[l["g"]]
                m = cls()
            elif l["cls"] == "LeakyReLU":
                m = cls(negative_slope=slope)
            elif l["cls"] == "PReLU":
                m = cls(init=slope).double()
            elif l["cls"] == "RReLU":
                m = cls(lower=slope, upper=slope)
            elif l["cls"] == "Softshrink":
                m = cls(lambd=float(l["lam"]))
            else:
                m = cls()
        mods.append(m)
    # the same layers in differently NESTED containers (blocks inside blocks): every non-linearity must be found wherever it sits
    nest = case.get("nest", 0)
    if nest == 1 and len(mods) >= 2:
        h = len(mods) // 2
        return torch.nn.Sequential(torch.nn.Sequential(*mods[:h]), torch.nn.Sequential(*mods[h:])), patched
    if nest == 2 and len(mods) >= 3:
        return torch.nn.Sequential(mods[0], torch.nn.Sequential(torch.nn.Sequential(*mods[1:-1]), mods[-1])), patched
    if nest == 3:
        class Block(torch.nn.Module):
            def __init__(self, ms):
                super().__init__()
                self.inner = torch.nn.ModuleList(ms)

            def forward(self, x):
                for m_ in self.inner:
                    x = m_(x)
                return x
        return Block(mods), patched
    return torch.nn.Sequential(*mods), patched


def _prior_call_with_overrides():
    """History lane: an earlier, unrelated call that overrides built-in rules through additional_nonlinear_ops must not
    influence later calls (the rule table is per call)."""
    def plain(module, grad_input, grad_output):
        return grad_input
    m = torch.nn.Sequential(torch.nn.Flatten(), torch.nn.Linear(8, 2), torch.nn.ReLU(), torch.nn.Linear(2, 1)).double()
    X = base.encode([0, 1], 4, torch.float64).unsqueeze(0)
    refs = base.encode([1, 0], 4, torch.float64).unsqueeze(0).unsqueeze(0)
    ops = {getattr(torch.nn, n): plain for n in ("ReLU", "ReLU6", "LeakyReLU", "PReLU", "RReLU", "Softshrink", "ELU", "Tanh", "Sigmoid", "GELU",
                                                 "SiLU", "Softplus", "Mish", "SELU", "CELU", "LogSigmoid", "MaxPool1d")}
    with warnings.catch_warnings():
        warnings.simplefilter("ignore")
        deep_lift_shap(m, X, references=refs, additional_nonlinear_ops=ops, device="cpu")


def handler(case):
    out = dict(st="ok")
    if case["id"] % 10 == 1:
        _prior_call_with_overrides()
    model, patched = build(case)
    try:
        A = case["A"]
        X = base.encode(case["x"], A, torch.float64).unsqueeze(0)
        if case["refmode"] == "tensor":
            refs = torch.tensor([[[v[0] / v[1] for v in row] for row in rm] for rm in case["refs"]], dtype=torch.float64).unsqueeze(0)
            if case["id"] % 3 == 2:
                refs = refs.float()          # entries are k/8: the same references stored in single precision
            kw = dict(references=refs)
        else:
            kw = dict(references=dinucleotide_shuffle, n_shuffles=case["nref"], random_state=case["seed"])
        if any(l["k"] == "act" and l["cls"] == "Custom" for l in case["layers"]):
            from tangermeme.deep_lift_shap import _nonlinear
            kw["additional_nonlinear_ops"] = {CustomSq: _nonlinear, CustomCube: _nonlinear}
        if case["id"] % 5 == 3:
            # the SAME model object was used in single precision before (same shapes), then converted back: whatever a call keeps on
            # the modules between calls must not leak the earlier precision into this one
            import copy
            sd = copy.deepcopy(model.state_dict())
            try:
                model.float()
                kwf = dict(kw)
                if "references" in kwf and isinstance(kwf["references"], torch.Tensor):
                    kwf["references"] = kwf["references"].float()
                with warnings.catch_warnings():
                    warnings.simplefilter("ignore")
                    deep_lift_shap(model, X.float(), target=case["target"], batch_size=case["bs"], raw_outputs=True, device="cpu", **kwf)
            except Exception:
                pass
            finally:
                model.double()
                model.load_state_dict(sd)
        with warnings.catch_warnings(record=True) as wl:
            warnings.simplefilter("always")
            try:
                r1 = deep_lift_shap(model, X, target=case["target"], batch_size=case["bs"], raw_outputs=True, return_references=True,
                                    device="cpu", **kw)
                mult, used = r1
                attr = deep_lift_shap(model, X, target=case["target"], batch_size=max(1, case["bs"] - 1) if case["id"] % 2 else 32,
                                      hypothetical=case["hyp"], device="cpu", **kw)
            except Exception as e:
                return dict(st="err", msg="%s: %s" % (type(e).__name__, str(e)[:200]))
        out["warn"] = [str(w.message)[:80] for w in wl if issubclass(w.category, RuntimeWarning)]
        if case["refmode"] == "tensor":
            if not bool((used[0] == refs[0]).all()):
                return dict(st="err", msg="returned references differ from the reference tensor that was passed")
            out["refs"] = case["refs"]
        else:
            used_dec = [base.decode(used[0, j], allow_n=False) for j in range(used.shape[1])]
            if any(u == "INVALID" for u in used_dec):
                return dict(st="err", msg="references returned are not one-hot")
            out["refs"] = [[[[1, 1] if u[p] == ch else [0, 1] for p in range(len(u))] for ch in range(A)] for u in used_dec]
        out["mult"] = mult[0].tolist()             # (nref, A, L)
        out["attr"] = attr[0].tolist()             # (A, L)
        with torch.no_grad():
            model.eval()
            out["fx"] = float(model(X)[0, case["target"]])
            out["fr"] = [float(model(used[0, j:j + 1].double())[0, case["target"]]) for j in range(used.shape[1])]
        hooks = sum(len(m._forward_hooks) + len(m._backward_hooks) + len(m._forward_pre_hooks) for m in model.modules())
        out["hooks"] = hooks
    finally:
        for cls, f in patched:
            cls.forward = f
    return out


if __name__ == "__main__":
    base.serve(handler)

"""Extras worker (not a listed property): pwm_consensus, extract_signal, random_one_hot."""
import random

import numpy
import pandas
import torch

from harness.impl import base
from tangermeme import utils


def handler(case):
    rng = random.Random(case["seed"])
    evs = []
    key = case["id"] * 10000
    pending = []
    for k in range(case["n"]):
        r = rng.random()
        if r < 0.35:
            A = rng.randint(2, 5); L = rng.randint(1, 12)
            p = [[rng.choice([0, 0, 1, 2, 3, 4, 8]) for _ in range(L)] for _ in range(A)]
            ev = dict(op="consensus", p=p, y=[])
            try:
                t = torch.tensor(p, dtype=torch.float64) / 8.0
                y = utils.pwm_consensus(t if k % 2 else t.numpy())
                d = base.decode(y.type(torch.int64))
                ev["st"] = "ok"; ev["y"] = d if d != "INVALID" else [-9] * L
            except Exception as e:
                ev["st"] = "err"
            evs.append(ev)
        elif r < 0.65:
            n = rng.randint(1, 4); S = rng.randint(1, 3); L = rng.randint(4, 30)
            x = [[[rng.randint(-5, 9) for _ in range(L)] for _ in range(S)] for _ in range(n)]
            loci = []
            for _ in range(rng.randint(1, 6)):
                s = rng.randint(0, L - 1)
                loci.append([rng.randrange(n), s, rng.randint(s + 1, L)])
            ev = dict(op="signal", x=x, loci=loci, y=[])
            try:
                df = pandas.DataFrame(loci, columns=["example_idx", "start", "end"])
                y = utils.extract_signal(df, torch.tensor(x, dtype=[torch.float32, torch.float64, torch.int64][k % 3]))
                ev["st"] = "ok"; ev["y"] = [[int(round(float(v))) for v in row] for row in y]
            except Exception as e:
                ev["st"] = "err"
            evs.append(ev)
        else:
            n = rng.randint(1, 4); A = rng.randint(2, 5); L = rng.randint(1, 20)
            shared = rng.random() < 0.5
            probs = []
            for _ in range(1 if shared else n):
                if rng.random() < 0.4:
                    row = [0] * A; row[rng.randrange(A)] = 1
                else:
                    row = [2] * A        # uniform (the spec only looks for a single 1 = forced character)
                probs.append(row)
            seed = rng.randint(0, 10 ** 6)
            key += 1
            call = dict(op="random", n=n, A=A, len=L, probs=probs, key=key, seed=seed)
            pending.append(call)
            evs.append(call)
    for c in list(pending):              # every random_one_hot configuration is executed a second time later (determinism)
        evs.append(dict(c))
    out = []
    for ev in evs:
        if ev["op"] != "random":
            out.append(ev)
            continue
        ev = dict(ev)
        try:
            pr = numpy.array([[v / sum(row) for v in row] for row in ev["probs"]], dtype=numpy.float64)
            y = utils.random_one_hot((ev["n"], ev["A"], ev["len"]), probs=pr, random_state=ev["seed"])
            ev["y"] = [[(v if v >= 0 else -1) for v in (base.decode(y[i].type(torch.int64), allow_n=False) if base.decode(y[i].type(torch.int64), allow_n=False) != "INVALID" else [-1] * ev["len"])]
                       for i in range(y.shape[0])]
            ev["st"] = "ok"
        except Exception as e:
            ev["st"] = "err"; ev["y"] = []
        ev.pop("seed", None)
        out.append(ev)
    for ev in out:
        for f in ("p", "x", "loci", "probs"):
            ev.setdefault(f, [])
        for f in ("n", "A", "len", "key"):
            ev.setdefault(f, 0)
    return {"events": out}


if __name__ == "__main__":
    base.serve(handler)

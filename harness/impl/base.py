"""Worker side: read cases, run handler(case) -> result dict, write one json line per case (flushed)."""
import json
import os
import sys
import traceback
import zlib


def crc(b):
    return zlib.crc32(b) & 0x7fffffff


def mkd(prefix):
    """a scratch directory of this worker process, removed when serve() ends"""
    import tempfile
    return tempfile.mkdtemp(prefix="vw%d-%s" % (os.getpid(), prefix), dir=os.environ.get("VERIF_SCRATCH", "/tmp"))


def fresh_write(path, text):
    """(re)write a file in place and make it NEWER than an index left beside it by an earlier version (pyfaidx rebuilds its
    .fai by modification time; a genome file that was updated is newer than its old index)"""
    import os, time
    with open(path, "w") as f:
        f.write(text)
    fai = path + ".fai"
    if os.path.exists(fai):
        t = max(time.time_ns(), os.stat(fai).st_mtime_ns + 5_000_000)
        os.utime(path, ns=(t, t))


def tdig(t):
    """digest of a tensor's bytes + dtype + shape"""
    import numpy
    import torch
    t = t.detach().cpu().contiguous()
    tag = str(t.dtype)
    if t.dtype == torch.bfloat16:          # numpy has no bfloat16: digest the raw 16-bit words
        t = t.view(torch.int16)
        a = t.numpy()
        return crc(a.tobytes() + tag.encode() + str(a.shape).encode())
    a = t.numpy()
    return crc(a.tobytes() + str(a.dtype).encode() + str(a.shape).encode())


def decode(t, allow_n=True):
    """one-hot (A, L) tensor -> list of symbols (0..A-1, -1 for all-zero) or "INVALID"."""
    import torch
    if t.ndim != 2:
        return "INVALID"
    t = t.detach().cpu()
    if not bool(((t == 0) | (t == 1)).all()):
        return "INVALID"
    s = t.sum(dim=0)
    if not bool(((s == 1) | (s == 0)).all()):
        return "INVALID"
    if not allow_n and not bool((s == 1).all()):
        return "INVALID"
    idx = t.argmax(dim=0)
    return [int(idx[i]) if int(s[i]) == 1 else -1 for i in range(t.shape[1])]


def encode(seq, A, dtype=None):
    import torch
    x = torch.zeros(A, len(seq), dtype=dtype or torch.int8)
    for i, c in enumerate(seq):
        if c >= 0:
            x[c, i] = 1
    return x


def encode_batch(seqs, A, dtype=None):
    import torch
    return torch.stack([encode(s, A, dtype) for s in seqs]) if seqs else torch.zeros(0, A, 0)


def err(e):
    return {"st": "err", "kind": type(e).__name__, "msg": str(e)[:200]}


class CaseTimeout(BaseException):
    pass


def _alarm(signum, frame):
    raise CaseTimeout()


def serve(handler):
    import signal
    inp, outp = sys.argv[1], sys.argv[2]
    cases = json.load(open(inp))
    limit = int(os.environ.get("VERIF_CASE_TIMEOUT", "120"))
    signal.signal(signal.SIGALRM, _alarm)
    ntimeouts = 0
    with open(outp, "w") as f:
        for c in cases:
            if ntimeouts >= 3:           # do not spend the whole budget on a code base that hangs everywhere
                f.write(json.dumps({"st": "timeout", "limit_s": limit, "skipped": True, "id": c["id"]}) + "\n")
                continue
            try:
                signal.setitimer(signal.ITIMER_REAL, limit, 1.0)     # re-fires every second: a swallowed exception is retried
                r = handler(c)
                signal.setitimer(signal.ITIMER_REAL, 0)
            except CaseTimeout:
                signal.setitimer(signal.ITIMER_REAL, 0)
                # an observation about the code under test: the call did not come back
                r = {"st": "timeout", "limit_s": limit}
                ntimeouts += 1
            except BaseException as e:   # the handler itself must catch API exceptions; this is a harness bug
                signal.setitimer(signal.ITIMER_REAL, 0)
                traceback.print_exc()
                sys.exit(3)
            r["id"] = c["id"]
            f.write(json.dumps(r, separators=(",", ":")))
            f.write("\n")
            f.flush()
    sys.stdout.flush()
    import glob, shutil
    for d in glob.glob(os.path.join(os.environ.get("VERIF_SCRATCH", "/tmp"), "vw%d-*" % os.getpid())):
        shutil.rmtree(d, ignore_errors=True)          # this worker's scratch directories (see mkd)
    os._exit(0)

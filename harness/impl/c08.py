"""C08 worker: marginalize / ablate / space / *_annotations / apply_pairwise / apply_product on the PosCoded fingerprint."""
import random

import numpy
import torch

from harness import tlaval
from harness.impl import base
from harness.impl.models import PosCoded
from tangermeme import ersatz
from tangermeme.ablate import ablate, ablate_annotations
from tangermeme.marginalize import marginalize, marginalize_annotations
from tangermeme.predict import predict
from tangermeme.product import apply_pairwise, apply_product
from tangermeme.space import space

KEYS = ("op", "x", "x0", "args0", "args1", "mo", "mos", "start", "end", "n", "grid", "ann", "shuf", "out", "T", "bs")
NOSTART = 9999
A = 4
NOUT = {"tensor": 1, "tuple": 2, "triple": 3}


def ints(t):
    a = t.detach().cpu().double().numpy()
    r = numpy.round(a)
    if not numpy.all(numpy.isfinite(a)) or numpy.abs(a - r).max(initial=0.0) > 1e-6 or numpy.abs(r).max(initial=0.0) >= 2 ** 31:
        return None
    return r.astype(numpy.int64).tolist()


def outputs(y, c, lead_dims):
    """normalise a wrapper result to [per output nested ints]; None if the structure is wrong."""
    nout = NOUT[c["out"]]
    ys = [y] if isinstance(y, torch.Tensor) else list(y)
    if len(ys) != nout or not all(isinstance(t, torch.Tensor) for t in ys):
        return None
    res = []
    for o, t in enumerate(ys):
        if o == 1:
            if t.ndim != lead_dims + 2 or tuple(t.shape[-2:]) != (2, 2):
                return None
            t = t.reshape(*t.shape[:-2], 4)
        elif t.ndim != lead_dims + 1:
            return None
        v = ints(t)
        if v is None:
            return None
        res.append(v)
    return res


def run_call(c, variant):
    ev = {k: c[k] for k in KEYS}
    ev.update(before=[], after=[], valid=True, variant=variant)
    op = c["op"]
    x = base.encode_batch(c["x"], A, torch.float64)
    if op in ("apply_pairwise", "apply_product"):          # X in the library's one-hot dtypes; the extra arguments stay float64
        x = x.type([torch.float64, torch.int8, torch.float32][variant % 3])
    model = PosCoded(c["T"], c["out"])
    seed = 1000 + variant

    def mkargs(n=None):
        a = []
        if c["args0"]:
            a.append(torch.tensor(c["args0"], dtype=torch.float64))
        if c["args1"]:
            a.append(torch.tensor(c["args1"], dtype=torch.float64))
        return tuple(a) if a else None
    args = mkargs()
    tens = [x] + (list(args) if args else [])
    x0 = None
    if c["x0"]:
        x0 = base.encode_batch(c["x0"], A, torch.float64)
        tens.append(x0)
    d0 = [base.tdig(t) for t in tens]
    start = None if c["start"] == NOSTART else c["start"]
    alphabet = [["A", "C", "G", "T"], ["A", "C", "T", "G"], ["T", "G", "C", "A"]][(variant // 2) % 3]   # symbol k is alphabet[k]
    try:
        if op == "marginalize":
            mb = base.encode_batch(c["mo"], A, torch.float64)
            motif = mb
            if len(c["mo"]) == 1 and variant % 2:
                motif = "".join(alphabet[s] for s in c["mo"][0])
            yb, ya = marginalize(model, x, motif, start=start, alphabet=alphabet, args=args, device="cpu", batch_size=c["bs"])
            b, a = outputs(yb, c, 1), outputs(ya, c, 1)
        elif op == "ablate":
            ev["shuf"] = [[base.decode(s) for s in row] for row in ersatz.shuffle(x, start=c["start"], end=c["end"], n=c["n"],
                                                                                 random_state=seed)]
            # the same region with its end counted from the back of the sequence (-1 = up to the last position), by turns
            end_arg = c["end"] - x.shape[-1] - 1 if variant % 3 == 1 else c["end"]
            yb, ya = ablate(model, x, c["start"], end_arg, n=c["n"], args=args, random_state=seed, device="cpu",
                            batch_size=c["bs"])
            b, a = outputs(yb, c, 1), outputs(ya, c, 2)
        elif op == "space":
            motifs = [base.encode_batch(mb, A, torch.float64) for mb in c["mos"]]
            if variant % 2:
                motifs = ["".join(alphabet[s] for s in mb[0]) if len(mb) == 1 else base.encode_batch(mb, A, torch.float64)
                          for mb in c["mos"]]
            grid = c["grid"] if variant % 3 else torch.tensor(c["grid"], dtype=torch.int64).reshape(len(c["grid"]), -1)
            yb, ya = space(model, x, motifs, grid, start=start, alphabet=alphabet, args=args, device="cpu", batch_size=c["bs"])
            b, a = outputs(yb, c, 2), outputs(ya, c, 2)
        elif op == "marginalize_annotations":
            ann = torch.tensor(c["ann"], dtype=torch.int64)
            yb, ya = marginalize_annotations(model, x, x0, ann, args=args, device="cpu", batch_size=c["bs"])
            b, a = outputs(yb, c, 2), outputs(ya, c, 2)
        elif op == "ablate_annotations":
            ann = torch.tensor(c["ann"], dtype=torch.int64)
            ev["shuf"] = [[base.decode(s) for s in ersatz.shuffle(x[i:i + 1], start=s0, end=e0, n=c["n"], random_state=seed)[0]]
                          for (i, s0, e0) in c["ann"]]
            yb, ya = ablate_annotations(model, x, ann, n=c["n"], random_state=seed, device="cpu", batch_size=c["bs"])
            b, a = outputs(yb, c, 2), outputs(ya, c, 3)
        elif op == "apply_pairwise":
            y = apply_pairwise(predict, model, x, args=mkargs(), batch_size=c["bs"], device="cpu")
            b, a = [], outputs(y, c, 2)
        elif op == "apply_product":
            y = apply_product(predict, model, x, args=mkargs(), batch_size=c["bs"], device="cpu")
            b, a = [], outputs(y, c, 3 if c["args1"] else 2)
        else:
            raise RuntimeError(op)
        ev["st"] = "ok"
        if a is None or b is None:
            ev["valid"] = False
        else:
            ev["before"], ev["after"] = b, a
    except Exception as e:
        ev["st"] = "err"; ev["kind"] = type(e).__name__; ev["msg"] = str(e)[:120]
    ev["same"] = [base.tdig(t) for t in tens] == d0
    return ev


# ------------------------------------------------------------------ wrappers around other funcs (deep_lift_shap, saturation_mutagenesis)
class IntNet(torch.nn.Module):
    """exact-integer network; torch.nn.Tanh.forward is replaced by z*z in this worker so DeepLIFT multipliers are integers"""

    def __init__(self, L):
        super().__init__()
        g = torch.Generator().manual_seed(21)
        self.l1 = torch.nn.Linear(4 * L, 3).double()
        self.act = torch.nn.Tanh()
        self.l2 = torch.nn.Linear(3, 2).double()
        with torch.no_grad():
            for p in self.parameters():
                p.copy_(torch.randint(-2, 3, p.shape, generator=g).double())

    def forward(self, X, a=None):
        y = self.l2(self.act(self.l1(X.flatten(1))))
        return y if a is None else y + a.reshape(-1, 1)


def digs(t):
    """nested list of per-row digests of a tensor over its leading `lead` dims flattened to the first dim"""
    return [base.tdig(t[i]) for i in range(t.shape[0])]


def run_func_lane(seed, n_calls):
    """A SEQUENCE of wrapper calls in one process with func = deep_lift_shap / saturation_mutagenesis and changing seeds;
    each output index is compared with the direct call of func on the input the index denotes (a logged fact)."""
    from tangermeme.deep_lift_shap import deep_lift_shap
    from tangermeme.ism import saturation_mutagenesis
    old = torch.nn.Tanh.forward
    torch.nn.Tanh.forward = lambda self, z: z * z
    rng = random.Random(seed)
    evs = []
    try:
        for k in range(n_calls):
            L = rng.randint(6, 9); n = rng.randint(1, 3)
            x = torch.stack([base.encode([rng.randrange(4) for _ in range(L)], 4, torch.float64) for _ in range(n)])
            model = IntNet(L)
            args = (torch.tensor([float(rng.randint(-5, 5)) for _ in range(n)], dtype=torch.float64),) if rng.random() < 0.4 else None
            rs = rng.randint(0, 1000)
            which = rng.choice(["ablate_dls", "marginalize_dls", "space_dls", "ablate_ism", "marginalize_ism"])
            ev = dict(op="func:" + which, got=[], fact=[], same=True, valid=True, seq=k, seed=seed)
            d0 = base.tdig(x)
            try:
                if which == "ablate_dls":
                    ns = rng.randint(1, 3); s0 = rng.randint(0, L - 3); e0 = rng.randint(s0 + 2, L)
                    kw = dict(n_shuffles=2, device="cpu", batch_size=rng.choice([1, 3, 32]))
                    rsf = rs          # the seed func itself is to use
                    if k % 2:       # keyword arguments reach func either through additional_func_kwargs or through **kwargs
                        akw = dict(kw)
                        if k % 4 == 1:      # a separate seed for func, given through additional_func_kwargs: it must not be overridden
                            rsf = rs + 17
                            akw["random_state"] = rsf
                        yb, ya = ablate(model, x, s0, e0, n=ns, args=args, random_state=rs, func=deep_lift_shap, additional_func_kwargs=akw)
                    else:
                        yb, ya = ablate(model, x, s0, e0, n=ns, args=args, random_state=rs, func=deep_lift_shap, **kw)
                    xp = ersatz.shuffle(x, start=s0, end=e0, n=ns, random_state=rs)
                    an = None if args is None else tuple(a.repeat_interleave(ns, dim=0) for a in args)
                    fb = deep_lift_shap(model, x, args=args, random_state=rsf, **kw)
                    fa = deep_lift_shap(model, xp.reshape(-1, 4, L), args=an, random_state=rsf, **kw)
                    ev["got"] = [digs(yb), digs(ya.reshape(-1, 4, L))]; ev["fact"] = [digs(fb), digs(fa)]
                elif which in ("marginalize_dls", "marginalize_ism"):
                    m = [rng.randrange(4) for _ in range(rng.randint(1, 3))]
                    st = rng.randint(0, L - len(m))
                    xs = ersatz.substitute(x, base.encode(m, 4, torch.float64).unsqueeze(0), start=st)
                    if which == "marginalize_dls":
                        kw = dict(n_shuffles=2, device="cpu", random_state=rs, batch_size=rng.choice([1, 3, 32]))
                        yb, ya = marginalize(model, x, "".join("ACGT"[s] for s in m), start=st, args=args, func=deep_lift_shap, **kw)
                        fb = deep_lift_shap(model, x, args=args, **kw); fa = deep_lift_shap(model, xs, args=args, **kw)
                    else:
                        kw = dict(device="cpu", batch_size=rng.choice([2, 5, 32]))
                        yb, ya = marginalize(model, x, "".join("ACGT"[s] for s in m), start=st, args=args, func=saturation_mutagenesis, **kw)
                        fb = saturation_mutagenesis(model, x, args=args, **kw); fa = saturation_mutagenesis(model, xs, args=args, **kw)
                    ev["got"] = [digs(yb), digs(ya)]; ev["fact"] = [digs(fb), digs(fa)]
                elif which == "space_dls":
                    mo = ["ACGT"[rng.randrange(4)], "ACGT"[rng.randrange(4)]]
                    grid = [[rng.randint(0, 2)] for _ in range(rng.randint(1, 3))]
                    kw = dict(n_shuffles=2, device="cpu", random_state=rs)
                    yb, ya = space(model, x, mo, grid, start=0, args=args, func=deep_lift_shap, **kw)
                    fa = [deep_lift_shap(model, ersatz.multisubstitute(x, mo, g, start=0), args=args, **kw) for g in grid]
                    fb = deep_lift_shap(model, x, args=args, **kw)
                    ev["got"] = [digs(yb[:, 0]), [digs(ya[:, s]) for s in range(len(grid))]]
                    ev["fact"] = [digs(fb), [digs(f) for f in fa]]
                else:   # ablate_ism
                    ns = rng.randint(1, 2); s0 = rng.randint(0, L - 3); e0 = rng.randint(s0 + 2, L)
                    kw = dict(device="cpu", batch_size=rng.choice([3, 32]))
                    yb, ya = ablate(model, x, s0, e0, n=ns, args=args, random_state=rs, func=saturation_mutagenesis, **kw)
                    xp = ersatz.shuffle(x, start=s0, end=e0, n=ns, random_state=rs)
                    an = None if args is None else tuple(a.repeat_interleave(ns, dim=0) for a in args)
                    fb = saturation_mutagenesis(model, x, args=args, **kw)
                    fa = saturation_mutagenesis(model, xp.reshape(-1, 4, L), args=an, **kw)
                    ev["got"] = [digs(yb), digs(ya.reshape(-1, *ya.shape[2:]))]; ev["fact"] = [digs(fb), digs(fa)]
                ev["st"] = "ok"
            except Exception as e:
                ev["st"] = "err"; ev["msg"] = "%s: %s" % (type(e).__name__, str(e)[:100])
            ev["same"] = base.tdig(x) == d0
            evs.append(ev)
    finally:
        torch.nn.Tanh.forward = old
    return evs


def gen_call(rng):
    L = rng.randint(6, 14)
    n = rng.randint(1, 6)
    x = [[rng.randrange(A) for _ in range(L)] for _ in range(n)]
    out = rng.choice(["tensor", "tuple", "triple"])
    op = rng.choice(["marginalize", "ablate", "space", "marginalize_annotations", "ablate_annotations", "apply_pairwise",
                     "apply_product"])
    c = dict(op=op, x=x, x0=[], args0=[], args1=[], mo=[], mos=[], start=0, end=0, n=0, grid=[], ann=[], shuf=[], out=out,
             T=rng.randint(1, 3), bs=rng.choice([1, 2, 3, 5, 7, 32]))

    def argv(k, small=False):
        r = 1.0 if small else rng.random()
        if r < 0.2:          # beyond 8 / 16 bits: the arguments must reach func with their own dtype, not X's
            return [rng.randint(-20000, 20000) for _ in range(k)]
        if r < 0.3:          # beyond float32's 24 bits
            return [16777217 + rng.randint(0, 50) for _ in range(k)]
        return [rng.randint(-20, 20) for _ in range(k)]
    na = rng.randint(0, 2)
    if op in ("marginalize", "ablate", "space"):
        if na >= 1:
            c["args0"] = argv(n)
        if na == 2:
            c["args1"] = argv(n, small=True)
    if op == "marginalize":
        m = rng.randint(1, 4)
        k = rng.choice([1, n])
        c["mo"] = [[rng.randrange(A) for _ in range(m)] for _ in range(k)]
        c["start"] = NOSTART if rng.random() < 0.3 else rng.randint(0, L - m)
    elif op == "ablate":
        c["start"] = rng.randint(0, L - 2); c["end"] = rng.randint(c["start"] + 1, L); c["n"] = rng.randint(1, 5)
    elif op == "space":
        nm = rng.randint(2, 3)
        c["mos"] = [[[rng.randrange(A) for _ in range(rng.randint(1, 2))]] for _ in range(nm)]
        c["grid"] = [[rng.randint(0, 1) for _ in range(nm - 1)] for _ in range(rng.randint(1, 4))]
        c["start"] = NOSTART if rng.random() < 0.5 else 0
    elif op == "marginalize_annotations":
        n0 = rng.randint(1, 3)
        c["x0"] = [[rng.randrange(A) for _ in range(L)] for _ in range(n0)]
        if rng.random() < 0.5:
            c["args0"] = argv(n0)
        k = rng.randint(1, 6)
        c["ann"] = []
        for _ in range(k):
            s = rng.randint(0, L - 2)
            c["ann"].append([rng.randrange(n), s, rng.randint(s + 1, min(L, s + 4))])
        c["start"] = NOSTART
    elif op == "ablate_annotations":
        k = rng.randint(1, 6)
        c["ann"] = []
        for _ in range(k):
            s = rng.randint(0, L - 2)
            c["ann"].append([rng.randrange(n), s, rng.randint(s + 1, L)])
        c["n"] = rng.randint(1, 5)
    elif op == "apply_pairwise":
        k0 = rng.randint(1, 4)
        c["args0"] = argv(k0)
        if rng.random() < 0.5:
            c["args1"] = argv(k0, small=True)
    else:
        c["args0"] = argv(rng.randint(1, 4))
        if rng.random() < 0.6:
            c["args1"] = argv(rng.randint(1, 4), small=True)
    return c


def verdict(ev, exp):
    if not ev["same"]:
        return "a caller's tensor was modified"
    if exp["zone"] == "either":
        return ""
    if ev["st"] != "ok":
        return "raised on a valid configuration"
    if not ev["valid"]:
        return "result has the wrong structure (number of outputs / shape) or non-integral values"
    if exp["before"] != [] and ev["before"] != exp["before"]:
        return "'before' is not func on the unmodified inputs at every index"
    if ev["after"] != exp["after"]:
        return "an 'after'/product entry is not func on the input its index denotes"
    return ""


def handler(case):
    mode = case.get("mode", "m1")
    if mode == "m1":
        st = tlaval.parse_state_body(case["state"])
        c, exp = st["call"], st["exp"]
        ev = run_call(c, case["id"])
        out = {"op": c["op"], "zone": exp["zone"], "nontrivial": c["out"] != "tensor" or bool(c["args0"]) or len(c["x"]) > 1}
        if exp["zone"] == "fact":
            out["v"] = ""
            e = dict(ev); e.pop("kind", None); e.pop("msg", None)
            out["carry"] = e
            return out
        v = verdict(ev, exp)
        out["v"] = v
        if v or case["id"] % 293 == 0:
            ev["y"] = dict(after=ev["after"])
            out["ev"] = ev; out["exp"] = exp
        return out
    if mode == "m2":
        rng = random.Random(case["seed"])
        evs = [run_call(gen_call(rng), rng.randrange(1000)) for _ in range(case["n"])]
        evs += run_func_lane(case["seed"], max(3, case["n"] // 6))
        return {"events": evs}
    if mode == "ev":
        return {"ev": run_call(case["call"], case.get("variant", 0))}


if __name__ == "__main__":
    base.serve(handler)

"""C10 worker: substitution_effect / deletion_effect / insertion_effect observed through an identity func/model."""
import random

import torch

from harness import tlaval
from harness.impl import base
from tangermeme import variant_effect as ve

KEYS = ("op", "x", "rows", "left")


class Identity(torch.nn.Module):
    def forward(self, X):
        return X


def capture(model, X, args=None, **kw):
    return X.clone()


def dec_batch(t, A):
    if t.ndim != 3 or t.shape[1] != A:
        return None
    out = [base.decode(t[i], allow_n=False) for i in range(t.shape[0])]
    return None if any(o == "INVALID" for o in out) else out


def run_call(c, variant, A):
    ev = {k: c[k] for k in KEYS}
    ev.update(before=[], after=[], valid=True, variant=variant, A=A)
    dtype = [torch.float32, torch.int8, torch.float64, torch.int64][variant % 4]
    x = base.encode_batch(c["x"], A, dtype)
    rows = [list(r) for r in c["rows"]]
    if (variant // 4) % 2:
        rows = rows[::-1]
    elif (variant // 8) % 2:
        random.Random(variant).shuffle(rows)
    width = 2 if c["op"] == "deletion" else 3
    R = torch.tensor(rows, dtype=torch.int64).reshape(-1, width)
    d0 = base.tdig(x)
    use_predict = (variant // 16) % 2 == 1
    kw = dict(device='cpu') if use_predict else dict(func=capture)
    model = Identity()
    # the flag as the caller may hold it: a Python bool, a numpy bool (e.g. from an array or a DataFrame column) or 0 / 1
    import numpy
    left = [c["left"], numpy.bool_(c["left"]), int(c["left"])][(variant // 3) % 3]
    try:
        if c["op"] == "substitution":
            yb, ya = ve.substitution_effect(model, x, R, **kw)
        elif c["op"] == "deletion":
            yb, ya = ve.deletion_effect(model, x, R, left=left, **kw)
        else:
            yb, ya = ve.insertion_effect(model, x, R, left=left, **kw)
        b, a = dec_batch(yb, A), dec_batch(ya, A)
        if b is None or a is None:
            ev["valid"] = False
        else:
            ev["before"], ev["after"] = b, a
        ev["st"] = "ok"
    except Exception as e:
        ev["st"] = "err"; ev["kind"] = type(e).__name__; ev["msg"] = str(e)[:100]
    ev["same"] = base.tdig(x) == d0
    return ev


def gen_call(rng):
    A = 4
    n = rng.randint(1, 4); Ln = rng.randint(4, 14)
    if rng.random() < 0.05:
        Ln = rng.choice([127, 128, 129, 140, 200, 260])      # beyond the range of an 8-bit counter (int8 is the library's one-hot dtype)
    x = [[rng.randrange(A) for _ in range(Ln)] for _ in range(n)]
    op = rng.choice(["substitution", "deletion", "deletion", "insertion", "insertion"])
    rows = []
    if op == "deletion":
        for i in range(n):
            k = rng.choice([0, 1, 1, 2, 3])
            pos = rng.sample(range(Ln), k)
            if rng.random() < 0.5 and k:
                pos[0] = rng.choice([0, Ln - 1])     # the trimmed edge
            rows += [[i, p] for p in set(pos)]
        if rng.random() < 0.85 and not rows:
            rows = [[0, rng.randrange(Ln)]]
        if rows and rng.random() < 0.3:
            rows.append(list(rng.choice(rows)))          # a position named twice (merged variant tables): still one deletion
    elif op == "insertion":
        for i in range(n):
            k = rng.choice([0, 1, 1, 2, 3])
            pos = rng.sample(range(Ln), k)
            rows += [[i, p, rng.randrange(A)] for p in pos]
        if rng.random() < 0.85 and not rows:
            rows = [[0, rng.randrange(Ln), 1]]
    else:
        for i in range(n):
            k = rng.choice([0, 1, 2, 3])
            for _ in range(k):
                rows.append([i, rng.randrange(Ln), rng.randrange(A)])
        if rng.random() < 0.85 and not rows:
            rows = [[0, 0, 1]]
        if rows and rng.random() < 0.3:
            rows.append(list(rows[0]))          # a repeated row
    if rng.random() < 0.05:
        rows.append([n, 0] + ([1] if op != "deletion" else []))
    elif op != "deletion" and rng.random() < 0.06:
        rows.append([rng.randrange(n), rng.randrange(Ln), A + rng.randint(0, 1)])     # a character beyond the alphabet
    return dict(op=op, x=x, rows=rows, left=rng.random() < 0.5), A


def verdict(ev, exp):
    if not ev["same"]:
        return "a caller's tensor was modified"
    if exp["zone"] == "any":
        return ""
    if exp["zone"] == "reject" and ev["st"] != "err":
        return "a variant list that cannot be honoured did not raise"
    if exp["zone"] == "accept" and ev["st"] != "ok":
        return "raised on a variant list that can be honoured"
    if ev["st"] == "ok" and not ev["valid"] and exp["zone"] != "any":
        return "func received something that is not a one-hot batch"
    if ev["st"] == "ok" and ev["before"] != exp["before"]:
        return "'before' is not the reference trimmed to the same length from the same side"
    if ev["st"] == "ok" and ev["after"] != exp["after"] and ev["after"] != exp["after2"]:
        return "'after' is not the string-level edited sequence"
    return ""


def handler(case):
    mode = case.get("mode", "m1")
    if mode == "m1":
        st = tlaval.parse_state_body(case["state"])
        c, exp = st["call"], st["exp"]
        ev = run_call(c, case["id"], case["A"])
        v = verdict(ev, exp)
        L = len(c["x"][0])
        edge = any(r[1] in (0, L - 1, L) for r in c["rows"])
        out = {"v": v, "op": c["op"], "zone": exp["zone"], "nontrivial": edge or len(c["rows"]) > 1}
        if v or case["id"] % 499 == 0:
            ev["y"] = dict(before=ev["before"], after=ev["after"])
            out["ev"] = ev; out["exp"] = exp
        return out
    if mode == "m2":
        rng = random.Random(case["seed"])
        evs = []
        for _ in range(case["n"]):
            c, A = gen_call(rng)
            evs.append(run_call(c, rng.randrange(1000), A))
        return {"events": evs}
    if mode == "ev":
        return {"ev": run_call(case["call"], case.get("variant", 0), case["call"].get("A", 4))}


if __name__ == "__main__":
    base.serve(handler)

"""C16 worker: read_meme on rendered layouts (from Meme.tla states) and extract_loci on synthetic genomes (Loci.tla / random)."""
import os
import random
import tempfile

import numpy
import pandas
import torch

from harness import tlaval
from harness.impl import base
from tangermeme.io import extract_loci, read_meme

LET = "ACGT"
TMP = base.mkd("c16-")


# ------------------------------------------------------------------ read_meme
def render(file_kinds, variant):
    rng = random.Random(variant)
    eol = "\r\n" if variant % 2 else "\n"
    trail = "  " if (variant // 2) % 2 else ""
    final_nl = (variant // 4) % 2 == 0
    lines, expect = [], []
    cur = None
    for ln in file_kinds:
        k = ln[0]
        if k == "hdr":
            lines += ["MEME version 4", "", "ALPHABET= ACGT", "", "strands: + -", "", "Background letter frequencies",
                      "A 0.25 C 0.25 G 0.25 T 0.25"]
        elif k == "blank":
            lines.append("")
        elif k == "motif":
            name = "M%d.%d name%d" % (ln[1], variant % 7, ln[1])
            lines.append("MOTIF " + name)
            cur = [name, []]
            expect.append(cur)
        elif k == "letter":
            lines.append("letter-probability matrix: alength= 4 w= %d nsites= 20 E= 0%s" % (ln[1], trail))
        elif k == "row":
            v = [rng.randint(0, 1000) for _ in range(4)]
            tot = sum(v) or 1
            txt = ["%.6f" % (x / tot) for x in v]
            cur[1].append([float(t) for t in txt])
            lines.append(("  " if variant % 3 == 0 else "") + "  ".join(txt) + trail)
        elif k == "url":
            lines.append("URL http://example.org/motif")
    text = eol.join(lines) + (eol if final_nl else "")
    return text, expect


def run_meme(st, variant):
    text, expect = render(st["file"], variant)
    path = os.path.join(TMP, "m%d.meme" % os.getpid())      # ONE path per process, rewritten for every case: the file is what counts
    with open(path, "w", newline="") as f:
        f.write(text)
    out = dict(op="meme")
    try:
        n_motifs = None
        if (variant // 8) % 4 == 3 and len(expect) > 1:
            n_motifs = len(expect) - 1
            expect = expect[:n_motifs]
        m = read_meme(path, n_motifs=n_motifs)
        names = [k.strip() for k in m.keys()]
        v = ""
        if names != [e[0] for e in expect]:
            v = "read_meme did not return every motif of the file in file order"
        else:
            for (name, rows), t in zip(expect, m.values()):
                want = torch.tensor(rows, dtype=torch.float64).T
                if tuple(t.shape) != tuple(want.shape) or not bool((t.double() == want).all()):
                    v = "a motif does not hold exactly the stated probabilities"
                    break
        out["v"] = v
        out["got"] = names
    except Exception as e:
        out["v"] = "read_meme raised %s" % type(e).__name__
    finally:
        os.remove(path)
    out["text"] = text
    return out


# ------------------------------------------------------------------ extract_loci
def sigval(c, q):
    return 1000 * c + q


def build_inputs(genome, variant, tag, gaps=None):
    names = ["chr%d" % (i + 1) for i in range(len(genome))]
    seq_mem = {}
    strs = []
    rng = random.Random(variant)
    for nm, g in zip(names, genome):
        a = numpy.zeros((4, len(g)), dtype=numpy.int8)
        s = []
        for q, v in enumerate(g):
            if v >= 0:
                a[v, q] = 1
                ch = LET[v]
                s.append(ch.lower() if rng.random() < 0.3 else ch)
            else:
                s.append("N" if rng.random() < 0.7 else "n")
        seq_mem[nm] = a
        strs.append("".join(s))
    # positions without coverage: NaN in the in-memory arrays, missing intervals in the bigWig; both read as 0
    gapset = {(ch, q) for (ch, lo, hi) in (gaps or []) for q in range(lo, hi)}
    sig_mem = {nm: numpy.array([numpy.nan if (i, q) in gapset else sigval(i, q) for q in range(len(g))], dtype=numpy.float64)
               for i, (nm, g) in enumerate(zip(names, genome))}
    # ONE FASTA path per process, rewritten in place for every case and its .fai left behind (a genome file that was updated):
    # whatever is remembered about the path -- an index on disk, chromosome sizes in memory -- must not outlive the content
    fa = os.path.join(TMP, "g%d.fa" % os.getpid())
    base.fresh_write(fa, "".join(">%s\n%s" % (nm, "".join(s_[k:k + 7] + "\n" for k in range(0, len(s_), 7))) for nm, s_ in zip(names, strs)))
    import pyBigWig
    bwp = os.path.join(TMP, "s%s.bw" % tag)
    bw = pyBigWig.open(bwp, "w")
    bw.addHeader([(nm, len(g)) for nm, g in zip(names, genome)])
    for i, (nm, g) in enumerate(zip(names, genome)):
        q = 0
        while q < len(g):                   # one run of entries per covered stretch
            if (i, q) in gapset:
                q += 1; continue
            e = q
            while e < len(g) and (i, e) not in gapset:
                e += 1
            bw.addEntries(nm, q, values=[float(sigval(i, t)) for t in range(q, e)], span=1, step=1)
            q = e
    bw.close()
    return names, seq_mem, sig_mem, fa, bwp


def decode_result(r, c):
    rs = r if isinstance(r, (list, tuple)) else [r]
    seqs = rs[0]
    out = dict(seqs=[], sigs=[], insigs=[])
    for k in range(seqs.shape[0]):
        d = base.decode(seqs[k].type(torch.int64))
        if d == "INVALID":
            return None
        out["seqs"].append(d)
    j = 1
    if c["sig"]:
        t = rs[j]; j += 1
        if t.ndim != 3 or t.shape[1] != 1:
            return None
        out["sigs"] = [[int(round(v)) for v in t[k, 0].tolist()] for k in range(t.shape[0])]
    if c["insig"]:
        t = rs[j]
        if t.ndim != 3 or t.shape[1] != 1:
            return None
        out["insigs"] = [[int(round(v)) for v in t[k, 0].tolist()] for k in range(t.shape[0])]
    return out


def run_loci(c, variant):
    ev = dict(c)
    ev.update(op="loci", valid=True, mem=dict(seqs=[], sigs=[], insigs=[]), file=dict(seqs=[], sigs=[], insigs=[]), hasfile=False,
              variant=variant)
    names, seq_mem, sig_mem, fa, bwp = build_inputs(c["genome"], variant, "%d_%d" % (os.getpid(), variant), c.get("gaps"))
    dfs = [pandas.DataFrame([[names[l[0]], l[1], l[2]] for l in s], columns=["chrom", "start", "end"]) for s in c["sets"]]
    if variant % 4 == 2:        # tables whose index is not 0..n-1 (filtered / concatenated without reset_index): row ORDER is what counts
        dfs = [d.set_index(pandas.Index([(7 * k + 3 * j) % 50 for k in range(len(d))][::-1])) for j, d in enumerate(dfs)]
    loci = dfs[0] if len(dfs) == 1 and variant % 2 else dfs
    kw = dict(in_window=c["inw"], out_window=c["outw"], max_jitter=c["jit"],
              min_counts=None if c["minc"] < 0 else c["minc"], max_counts=None if c["maxc"] < 0 else c["maxc"],
              n_loci=None if c["nloci"] < 0 else c["nloci"], chroms=None if not c["allowed"] else [names[i] for i in c["allowed"]])
    try:
        r = extract_loci(loci, seq_mem, signals=[sig_mem] if c["sig"] else None, in_signals=[sig_mem] if c["insig"] else None, **kw)
        d = decode_result(r, c)
        ev["st"] = "ok"
        if d is None:
            ev["valid"] = False
        else:
            ev["mem"] = d
        if variant % 3 != 2:          # file inputs: FASTA + bigWig (+ BED file for the loci)
            if variant % 3 == 1 and len(dfs) == 1:
                bed = os.path.join(TMP, "l%d_%d.bed" % (os.getpid(), variant))
                dfs[0].to_csv(bed, sep="\t", header=False, index=False)
                loci_f = bed
            else:
                loci_f = loci
            r2 = extract_loci(loci_f, fa, signals=[bwp] if c["sig"] else None, in_signals=[bwp] if c["insig"] else None, **kw)
            d2 = decode_result(r2, c)
            ev["hasfile"] = True
            if d2 is None:
                ev["valid"] = False
            else:
                ev["file"] = d2
    except Exception as e:
        ev["st"] = "err"; ev["msg"] = "%s: %s" % (type(e).__name__, str(e)[:100])
    finally:
        for p in (bwp,):
            if os.path.exists(p):
                os.remove(p)
    return ev


def gen_loci(rng):
    nchrom = rng.randint(1, 3)
    genome = []
    for _ in range(nchrom):
        Ln = rng.randint(20, 60)
        g = [rng.randrange(4) for _ in range(Ln)]
        if rng.random() < 0.5:
            s = rng.randrange(Ln - 3)
            for q in range(s, s + rng.randint(1, 3)):
                g[q] = -1
        genome.append(g)
    inw = rng.randint(1, 12); outw = rng.randint(1, 12); jit = rng.choice([0, 0, 1, 2])
    nsets = rng.randint(1, 3)
    sets = []
    for _ in range(nsets):
        s = []
        for _ in range(rng.randint(1, 6)):
            ch = rng.randrange(nchrom)
            Ln = len(genome[ch])
            r = rng.random()
            if r < 0.2:
                a = rng.choice([0, 1, 2]); b = a + rng.randint(1, 6)
            elif r < 0.4:
                b = Ln - rng.choice([0, 1, 2]); a = max(0, b - rng.randint(1, 6))
            else:
                a = rng.randint(0, Ln - 2); b = rng.randint(a + 1, min(Ln, a + 15))
            s.append([ch, a, b])
        sets.append(s)
    sig = rng.random() < 0.6
    c = dict(genome=genome, sets=sets, allowed=[] if rng.random() < 0.7 else sorted(rng.sample(range(nchrom), rng.randint(1, nchrom))),
             inw=inw, outw=outw, jit=jit, minc=-1, maxc=-1, nloci=-1 if rng.random() < 0.7 else rng.randint(1, 5),
             sig=sig, insig=rng.random() < 0.3)
    if (sig or c["insig"]) and rng.random() < 0.4:
        c["gaps"] = []
        for _ in range(rng.randint(1, 3)):
            ch = rng.randrange(nchrom); lo = rng.randrange(len(genome[ch]) - 1)
            c["gaps"].append([ch, lo, min(len(genome[ch]), lo + rng.randint(1, 6))])
    else:
        c["gaps"] = []
    if sig and rng.random() < 0.4:
        tot = outw + 2 * jit
        base_v = tot * rng.randint(5, 40)
        if rng.random() < 0.5:
            c["minc"] = base_v
        else:
            c["maxc"] = base_v + 1000 * rng.randint(0, 2) * tot
    return c


def handler(case):
    mode = case.get("mode", "m1")
    if mode == "meme":
        st = tlaval.parse_state_body(case["state"])
        if st["build"] or st["pos"] <= len(st["file"]):
            return {"v": "", "op": "skip", "zone": "na"}
        r = run_meme(st, case["id"])
        out = {"v": r["v"], "op": "meme", "zone": "accept", "nontrivial": len(st["expect"]) > 1 or st["file"][-1][0] == "row"}
        if r["v"] or case["id"] % 1499 == 0:
            out["ev"] = dict(op="meme", layout=st["file"], text=r["text"], st="ok", y=r.get("got"), variant=case["id"])
            out["exp"] = dict(motifs=st["expect"])
        return out
    if mode == "m1":
        st = tlaval.parse_state_body(case["state"])
        c, exp = st["call"], st["exp"]
        ev = run_loci(c, case["id"])
        ev.pop("msg", None)
        L = len(c["genome"][0])
        return {"v": "", "op": "loci", "zone": "fact", "carry": ev, "nontrivial": len(exp["must"]) != len(exp["may"]) or len(c["sets"]) > 1}
    if mode == "m2":
        rng = random.Random(case["seed"])
        evs = []
        for _ in range(case["n"]):
            e = run_loci(gen_loci(rng), rng.randrange(1000))
            evs.append(e)
        return {"events": evs}
    if mode == "ev":
        return {"ev": run_loci(case["call"], case.get("variant", 0))}


if __name__ == "__main__":
    base.serve(handler)

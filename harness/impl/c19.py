"""C19 worker: _iterative_extract_seqlets on enumerated tracks; recursive_seqlets / tfmodisco_seqlets on random integer tracks."""
import random
import warnings

import numpy
import torch

from harness import tlaval
from harness.impl import base
from tangermeme import seqlet as sq

NEG = -1000


def run_iter(track, leaves, window, flank, supp):
    X = numpy.array([[(-numpy.inf if v == NEG else float(v)) for v in track]], dtype=numpy.float64)
    try:
        out = sq._iterative_extract_seqlets(X_sum=X, window_size=window, flank=flank, suppress=supp)
        got = [[int(s), int(e)] for (_, s, e) in out]
    except Exception as e:
        return "raised %s" % type(e).__name__, None
    if got not in leaves:
        return "extracted seqlets are not a result of repeatedly taking a maximum and suppressing its neighbourhood", got
    return "", got


def make_track(rng):
    n = rng.randint(1, 6); L = rng.randint(40, 200)
    x = [[rng.randint(-1, 1) for _ in range(L)] for _ in range(n)]
    for _ in range(rng.randint(0, 10)):
        i = rng.randrange(n); w = rng.randint(3, 14)
        r = rng.random()
        s = 0 if r < 0.2 else (L - w if r < 0.4 else rng.randint(0, L - w))
        sign = rng.choice([1, 1, -1]); h = rng.randint(4, 12)
        for q in range(s, s + w):
            x[i][q] = sign * (h + rng.randint(0, 3))
    return x


def run_rows(c, variant):
    ev = dict(c)
    ev.update(rows=[], same=True, variant=variant)
    X = torch.tensor(c["x"], dtype=torch.float64 if variant % 2 else torch.float32)
    d0 = base.tdig(X)
    try:
        with warnings.catch_warnings():
            warnings.simplefilter("ignore")
            if c["op"] == "recursive":
                Xin = X if variant % 3 else X.numpy()
                df = sq.recursive_seqlets(Xin, threshold=c["thr1000"] / 1000.0, min_seqlet_len=c["minlen"], max_seqlet_len=c["maxlen"],
                                          additional_flanks=c["flanks"])
                ps = list(df["p-value"])
                order = sorted(set(ps))
                rows = [dict(ex=int(r[0]), start=int(r[1]), end=int(r[2]), attr=_int(r[3]), pok=bool(r[4] <= c["thr1000"] / 1000.0),
                             rank=order.index(r[4])) for r in df.itertuples(index=False)]
            else:
                df = sq.tfmodisco_seqlets(X, window_size=c["window"], flank=c["flank"])
                rows = [dict(ex=int(r[0]), start=int(r[1]), end=int(r[2]), attr=_int(r[3]), pok=True, rank=0) for r in df.itertuples(index=False)]
        ev["st"] = "ok"
        ev["rows"] = rows
    except Exception as e:
        ev["st"] = "err"; ev["msg"] = "%s: %s" % (type(e).__name__, str(e)[:80])
    ev["same"] = base.tdig(X) == d0
    return ev


def _int(v):
    v = float(v)
    if v != v or abs(v) > 2 ** 30 or abs(v - round(v)) > 1e-6:
        return 2 ** 30 - 7        # a value no integer track can produce: reported as a wrong attribution
    return int(round(v))


def gen_call(rng, big=False):
    x = make_track(rng)
    if big:          # float64 input whose values and running sums need more than 24 bits (exact in float64, not in float32)
        x = [[v * 1048577 for v in row] for row in x]
    if rng.random() < 0.6:
        mn = rng.randint(3, 8)
        return dict(op="recursive", x=x, thr1000=rng.choice([1, 10, 50, 100, 200]), minlen=mn, maxlen=rng.randint(mn + 2, 30),
                    flanks=rng.randint(0, 5), window=0, flank=0)
    return dict(op="tfmodisco", x=x, thr1000=0, minlen=0, maxlen=0, flanks=0, window=rng.choice([1, 2, 3, 4, 5, 6, 9, 10, 15, 21]), flank=rng.choice([0, 2, 5, 10]))


def handler(case):
    mode = case.get("mode", "m1")
    if mode == "iter":
        track = tlaval.parse_value(case["track"])
        v, got = run_iter(track, case["leaves"], case["window"], case["flank"], case["supp"])
        out = {"v": v, "op": "iterative", "zone": "accept", "nontrivial": len(case["leaves"]) > 1 or len(case["leaves"][0]) > 1}
        if v or case["id"] % 499 == 0:
            out["ev"] = dict(op="iterative", track=track, st="ok", y=got, variant=0); out["exp"] = dict(leaves=case["leaves"])
        return out
    if mode == "m2":
        rng = random.Random(case["seed"])
        evs = []
        for _ in range(case["n"]):
            variant = rng.randrange(1000)
            c = gen_call(rng, big=(variant % 2 == 1 and variant % 5 < 2))
            evs.append(run_rows(c, variant))
            if c["op"] == "recursive" and rng.random() < 0.5:
                # the same settings again in this process on a SHORTER input with a more permissive threshold: nothing sized for the
                # longer input may be carried over
                t = dict(c); cut = max(c["maxlen"] + 2, (len(c["x"][0]) * 3) // 5)
                t["x"] = [row[:cut] for row in c["x"]]; t["thr1000"] = 200
                evs.append(run_rows(t, variant))
        return {"events": evs}
    if mode == "ev":
        return {"ev": run_rows(case["call"], case.get("variant", 0))}


if __name__ == "__main__":
    base.serve(handler)

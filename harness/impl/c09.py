"""C09 worker: saturation_mutagenesis on the PosCoded exact-integer model."""
import random

import numpy
import torch

from harness import tlaval
from harness.impl import base
from harness.impl.models import PosCoded
from tangermeme.ism import saturation_mutagenesis

KEYS = ("x", "A", "args", "start", "end", "bs", "out", "T", "U", "tlo", "thi", "hyp", "raw")


def ints(t, scale=1.0):
    a = t.detach().cpu().double().numpy() * scale
    r = numpy.round(a)
    if not numpy.all(numpy.isfinite(a)) or numpy.abs(a - r).max(initial=0.0) > 1e-6 or numpy.abs(r).max(initial=0.0) >= 2 ** 31:
        return None
    return r.astype(numpy.int64).tolist()


def run_call(c, variant):
    ev = {k: c[k] for k in KEYS}
    ev.update(y0=[], yhat=[], y0b=[], yhatb=[], attr=[], valid=True, variant=variant)
    A = c["A"]
    x = base.encode_batch(c["x"], A, torch.float64)
    args = None if not c["args"] else (torch.tensor(c["args"], dtype=torch.float64),)
    model = PosCoded(c["T"], c["out"])
    model.U = c.get("U", 1)
    if c["tlo"] == -1:
        target = None
    elif c["thi"] - c["tlo"] == 1 and variant % 2 == 0:
        target = c["tlo"] if variant % 4 == 0 else c["tlo"] - c["T"]          # the same output counted from the end (-1 = last)
    elif variant % 4 == 1:
        target = slice(c["tlo"] - c["T"], c["thi"] - c["T"] if c["thi"] < c["T"] else None)      # the same slice with negative bounds
    else:
        target = slice(c["tlo"], c["thi"])
    ins = [x] + (list(args) if args else [])
    d0 = [base.tdig(t) for t in ins]
    try:
        # flags as the caller may hold them: Python bools, numpy bools (taken from an array / DataFrame) or 0 / 1
        flag = [lambda v: v, lambda v: numpy.bool_(v), lambda v: int(v)][(variant // 4) % 3]
        r = saturation_mutagenesis(model, x, args=args, start=c["start"], end=c["end"], batch_size=c["bs"], target=target,
                                   hypothetical=flag(c["hyp"]), raw_outputs=flag(c["raw"]), device="cpu")
        ev["st"] = "ok"
        n = len(c["x"])
        if c["raw"]:
            y0, yh = r
            if c["out"] == "tensor":
                a, b = ints(y0), ints(yh)
                ok = a is not None and b is not None and yh.ndim == 4
                if ok:
                    ev["y0"], ev["yhat"] = a, b
            else:
                ok = isinstance(y0, (list, tuple)) and isinstance(yh, (list, tuple)) and len(y0) == 2 and len(yh) == 2
                if ok:
                    a, b = ints(y0[0]), ints(yh[0])
                    a2 = ints(y0[1].reshape(n, 4)) if y0[1].numel() == n * 4 else None
                    b2 = ints(yh[1].reshape(*yh[1].shape[:3], 4)) if yh[1].ndim == 5 else None
                    ok = None not in (a, b, a2, b2) and yh[0].ndim == 4
                    if ok:
                        ev["y0"], ev["yhat"], ev["y0b"], ev["yhatb"] = a, b, a2, b2
            ev["valid"] = bool(ok)
        else:
            nt = c["T"] if c["tlo"] == -1 else c["thi"] - c["tlo"]
            a = ints(r, scale=A * nt * c.get("U", 1)) if r.ndim == 3 else None
            if a is None:
                ev["valid"] = False
            else:
                ev["attr"] = a
    except Exception as e:
        ev["st"] = "err"; ev["kind"] = type(e).__name__; ev["msg"] = str(e)[:100]
    ev["same"] = [base.tdig(t) for t in ins] == d0
    return ev


def gen_call(rng):
    A = rng.randint(2, 5); L = rng.randint(1, 30); n = rng.randint(1, 3)
    x = [[rng.randrange(A) for _ in range(L)] for _ in range(n)]
    if rng.random() < 0.25:                      # unknown characters (all-zero columns) are valid inputs
        for _ in range(rng.randint(1, 2)):
            x[rng.randrange(n)][rng.randrange(L)] = -1
    start = rng.randint(0, L - 1)
    end = rng.randint(start + 1, L)
    if rng.random() < 0.3:
        end = end - L - 1          # the same window written with a negative end
    raw = rng.random() < 0.5
    out = rng.choice(["tensor", "tuple"]) if raw else "tensor"
    T = rng.randint(1, 4)
    tlo, thi = -1, 0
    if (not raw and rng.random() < 0.7) or (raw and rng.random() < 0.4):      # with raw outputs a target selects nothing: y0 / y_hat stay whole
        tlo = rng.randrange(T); thi = rng.randint(tlo + 1, T)
    args = [rng.randint(-9, 9) for _ in range(n)] if rng.random() < 0.5 else []
    if args and rng.random() < 0.3:
        # outputs that need more than 24 bits of mantissa: exact in the model's float64, not in float32
        args = [rng.choice([16777217, 33554433, -33554431]) + rng.randint(0, 8) for _ in range(n)]
    return dict(x=x, A=A, args=args, start=start, end=end,
                bs=rng.choice([1, 2, 3, 7, 32, A * L + 1]), out=out, T=T, U=1 if raw else rng.choice([1, 2]), tlo=tlo, thi=thi,
                hyp=rng.random() < 0.5, raw=raw)


def verdict(ev, exp):
    if not ev["same"]:
        return "a caller's tensor was modified"
    if exp["zone"] == "either":
        return ""
    if ev["st"] != "ok":
        return "raised on a valid window"
    if not ev["valid"]:
        return "result has the wrong shape or non-integral values"
    if ev["raw"]:
        if ev["y0"] != exp["y0"]:
            return "y0 is not the model on the original sequences"
        if ev["yhat"] != exp["yhat"]:
            return "y_hat[n, c, p-start] is not the model on sequence n with position p set to c"
        if ev["out"] == "tuple" and (ev["y0b"] != exp["y0b"] or ev["yhatb"] != exp["yhatb"]):
            return "second output of a tuple model is mis-indexed"
    elif ev["attr"] != exp["attr"]:
        return "attribution is not the documented function of y0 and y_hat"
    return ""


def handler(case):
    mode = case.get("mode", "m1")
    if mode == "m1":
        st = tlaval.parse_state_body(case["state"])
        c, exp = st["call"], st["exp"]
        ev = run_call(c, case["id"])
        v = verdict(ev, exp)
        L = len(c["x"][0])
        out = {"v": v, "op": "ism-" + ("raw-" + c["out"] if c["raw"] else "attr"), "zone": exp["zone"],
               "nontrivial": c["start"] > 0 or c["end"] not in (-1, L) or c["out"] == "tuple" or bool(c["args"])}
        if v or case["id"] % 997 == 0:
            ev["y"] = dict(y0=ev["y0"], yhat=ev["yhat"], attr=ev["attr"]); ev["op"] = out["op"]
            out["ev"] = ev
            out["exp"] = {k: exp[k] for k in ("zone", "y0", "yhat", "attr")}
        return out
    if mode == "m2":
        rng = random.Random(case["seed"])
        evs = []
        for _ in range(case["n"]):
            e = run_call(gen_call(rng), rng.randrange(1000)); e["op"] = "ism"
            evs.append(e)
        return {"events": evs}
    if mode == "ev":
        e = run_call(case["call"], case.get("variant", 0)); e["op"] = "ism"
        return {"ev": e}


if __name__ == "__main__":
    base.serve(handler)

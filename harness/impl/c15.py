"""C15 worker: one_hot_encode / characters / reverse_complement / chunk / unchunk."""
import random

import numpy
import torch

from harness import tlaval
from harness.impl import base
from tangermeme import utils

DTYPES = [torch.int8, torch.float32, torch.int64, torch.float64, torch.uint8, torch.int32, torch.float16, torch.bool]
KEYS = ("op", "str", "alphabet", "ignore", "x", "comp", "xs", "size", "ov", "longlen")


def s2str(codes):
    return "".join(chr(c) for c in codes)


def run_call(c, variant):
    ev = {k: c.get(k, 0) for k in KEYS}
    ev.update(y=[], valid=True, variant=variant)
    op = c["op"]
    alpha = [chr(a) for a in c["alphabet"]]
    A = len(alpha)
    try:
        if op in ("encode", "roundtrip"):
            dtype = DTYPES[variant % len(DTYPES)]
            al = alpha if variant % 2 else "".join(alpha)
            t = utils.one_hot_encode(s2str(c["str"]), alphabet=al, dtype=dtype, ignore=[chr(i) for i in c["ignore"]])
            if op == "encode":
                d = base.decode(t.type(torch.int64)) if t.ndim == 2 and t.shape[0] == A else "INVALID"
                if d == "INVALID" or t.dtype != dtype or t.shape != (A, len(c["str"])):
                    ev["valid"] = False
                else:
                    ev["y"] = d
            else:
                s = utils.characters(t.type(torch.float32) if dtype in (torch.bool, torch.float16) else t, alphabet=alpha, allow_N=True)
                ev["y"] = [ord(ch) for ch in s]
        elif op == "decode":
            t = base.encode(c["x"], A, DTYPES[variant % 6])
            has_n = any(v < 0 for v in c["x"])
            if variant % 3 == 0:
                t = t.unsqueeze(0)        # (1, A, L) is accepted as well
            an = True if has_n else bool(variant % 2)
            s = utils.characters(t, alphabet=alpha, allow_N=[an, numpy.bool_(an), int(an)][(variant // 2) % 3])
            ev["y"] = [ord(ch) for ch in s]
        elif op == "reencode":
            t = base.encode(c["x"], A, DTYPES[variant % 6])
            s = utils.characters(t, alphabet=alpha, allow_N=True)
            t2 = utils.one_hot_encode(s, alphabet=alpha, ignore=['N'])
            d = base.decode(t2)
            if d == "INVALID":
                ev["valid"] = False
            else:
                ev["y"] = d
        elif op == "rc_tensor":
            cmap = {alpha[i]: alpha[c["comp"][i]] for i in range(A)}
            t = base.encode(c["x"], A, DTYPES[variant % 6])
            r = utils.reverse_complement(t, complement_map=cmap)
            d = base.decode(r) if r.shape == t.shape and r.dtype == t.dtype else "INVALID"
            if d == "INVALID":
                ev["valid"] = False
            else:
                ev["y"] = d
        elif op == "rc_string":
            cmap = {alpha[i]: alpha[c["comp"][i]] for i in range(A)}
            r = utils.reverse_complement(s2str(c["str"]), complement_map=cmap)
            ev["y"] = [ord(ch) for ch in r]
        elif op == "unchunk_long":
            Ln = c["longlen"]
            x = torch.arange(Ln, dtype=torch.int64).unsqueeze(0)
            ch = utils.chunk([x], size=c["size"], overlap=c["ov"])
            un = utils.unchunk(ch, lengths=[Ln], overlap=c["ov"])
            got = un[0]
            ev["y"] = [int(ch.shape[0]), int(got.shape[-1]), int(bool(got.ndim == 2 and torch.equal(got[0], x[0, :got.shape[-1]])))]
            del x, ch, un, got
        elif op in ("chunk", "unchunk"):
            dtype = [torch.int64, torch.float32, torch.float64, torch.int32][variant % 4]
            nout = 1 + (variant // 4) % 2      # n_outputs axis: rows carry id and id+50000*row
            X = [torch.stack([torch.tensor(x, dtype=dtype) + 5000 * r for r in range(nout)]) for x in c["xs"]]
            ch = utils.chunk(X, size=c["size"], overlap=c["ov"])
            if op == "chunk":
                ok = ch.ndim == 3 and ch.shape[1] == nout and all(
                    bool((ch[:, r] == ch[:, 0] + 5000 * r).all()) for r in range(nout))
                if not ok:
                    ev["valid"] = False
                else:
                    ev["y"] = ch[:, 0].type(torch.int64).tolist()
            else:
                lengths = [len(x) for x in c["xs"]]
                if variant % 3 == 1:
                    lengths = numpy.array(lengths)
                elif variant % 3 == 2:
                    lengths = torch.tensor(lengths)
                un = utils.unchunk(ch, lengths=lengths, overlap=c["ov"])
                ok = len(un) == len(X) and all(u.ndim == 2 and u.shape[0] == nout and all(
                    bool((u[r] == u[0] + 5000 * r).all()) for r in range(nout)) for u in un)
                if not ok:
                    ev["valid"] = False
                else:
                    ev["y"] = [u[0].type(torch.int64).tolist() for u in un]
        ev["st"] = "ok"
    except Exception as e:
        ev["st"] = "err"
        ev["kind"] = type(e).__name__
        ev["msg"] = str(e)[:100]
    return ev


def gen_call(rng):
    c = dict(op="", str=[], alphabet=[], ignore=[], x=[], comp=[], xs=[], size=0, ov=0)
    r = rng.random()
    pool = [ch for ch in range(33, 127) if ch != 78]
    A = rng.randint(1, 8)
    alphabet = rng.sample(pool, A)
    c["alphabet"] = alphabet
    if r < 0.35:
        c["op"] = rng.choice(["encode", "roundtrip"])
        ign = [78] + rng.sample([p for p in pool if p not in alphabet], rng.randint(0, 2)) if rng.random() < 0.8 else []
        if rng.random() < 0.05:
            ign = ign + [alphabet[0]]
        c["ignore"] = ign
        L = rng.randint(1, 50)
        src = alphabet * 4 + ign
        c["str"] = [rng.choice(src) for _ in range(L)]
        if rng.random() < 0.1:
            c["str"][rng.randrange(L)] = rng.choice([p for p in pool if p not in alphabet and p not in ign])
    elif r < 0.5:
        c["op"] = rng.choice(["decode", "reencode"])
        L = rng.randint(1, 50)
        c["x"] = [rng.choice(list(range(A)) * 3 + [-1]) for _ in range(L)]
        if A == 1 and c["op"] == "decode":
            c["x"] = [0] * L if rng.random() < 0.5 else c["x"]
    elif r < 0.7:
        A = max(A, 2); alphabet = rng.sample(pool, A)
        if rng.random() < 0.3:          # 'N' as an ordinary letter of the alphabet, with its own complement (not the unknown character)
            alphabet[rng.randrange(A)] = 78
        c["alphabet"] = alphabet
        perm = list(range(A))
        idx = list(range(A)); rng.shuffle(idx)
        while len(idx) >= 2:
            a = idx.pop(); b = idx.pop()
            if rng.random() < 0.8:
                perm[a], perm[b] = b, a
        c["comp"] = perm
        L = rng.randint(1, 40)
        if rng.random() < 0.5:
            c["op"] = "rc_tensor"; c["x"] = [rng.choice(list(range(A)) * 3 + [-1]) for _ in range(L)]
        else:
            c["op"] = "rc_string"; c["str"] = [rng.choice(alphabet * 4 + [78]) for _ in range(L)]
    else:
        c["alphabet"] = []
        c["op"] = rng.choice(["chunk", "unchunk", "unchunk"])
        size = rng.randint(1, 40); ov = rng.randint(0, size - 1)
        step = size - ov
        xs = []
        for k in range(rng.randint(1, 4)):
            nch = rng.choice([1, 1, 2, 3, rng.randint(4, 9)])
            L = size + (nch - 1) * step + rng.randint(0, step - 1)
            xs.append([100 * (k + 1) + p + 1 for p in range(L)])
        c["xs"] = xs; c["size"] = size; c["ov"] = ov
    return c


def handler(case):
    mode = case.get("mode", "m1")
    if mode == "m1":
        st = tlaval.parse_state_body(case["state"])
        c, exp = st["call"], st["exp"]
        ev = run_call(c, case["id"])
        v = ""
        if exp["zone"] == "reject" and ev["st"] != "err":
            v = "accepted a character outside alphabet and ignore (or overlapping sets)"
        elif exp["zone"] == "accept" and ev["st"] != "ok":
            v = "raised on a valid input"
        elif ev["st"] == "ok" and not ev["valid"]:
            v = "result is not a valid encoding of the requested dtype / shape"
        elif ev["st"] == "ok" and ev["y"] != exp["y"]:
            v = "result differs from the specified conversion"
        nt = (c["op"] in ("chunk", "unchunk") and c["ov"] > 0) or (c["op"] in ("encode", "roundtrip") and any(
            ch not in c["alphabet"] for ch in c["str"])) or (c["op"].startswith("rc") and len(c["x"]) + len(c["str"]) > 1) \
            or (c["op"] in ("decode", "reencode") and -1 in c["x"])
        out = {"v": v, "op": c["op"], "zone": exp["zone"], "nontrivial": nt}
        if v or case["id"] % 4999 == 0:
            out["ev"] = ev; out["exp"] = exp
        return out
    if mode == "m2":
        rng = random.Random(case["seed"])
        evs = []
        for _ in range(case["n"]):
            c = gen_call(rng)
            evs.append(run_call(c, rng.randrange(1000)))
            if c["op"] in ("encode", "roundtrip") and len(c["ignore"]) > 1 and rng.random() < 0.5:
                # the same alphabet again with a SMALLER ignore set and a string that uses a character ignored before: must be rejected
                t = dict(c); t["ignore"] = c["ignore"][:1]
                t["str"] = list(c["str"][:5]) + [c["ignore"][-1]]
                if t["ignore"][0] != c["ignore"][-1] and c["ignore"][-1] not in c["alphabet"]:
                    evs.append(run_call(t, rng.randrange(1000)))
        if case.get("long") and case["id"] == 0:
            # chromosome-scale sequences: lengths beyond 2^24 (float32 cannot count them)
            for Ln, size, ov in [(16777333, 40, 1), (16777259, 50, 7), (33554467, 64, 0)][:case["long"]]:
                c = dict(op="unchunk_long", str=[], alphabet=[], ignore=[], x=[], comp=[], xs=[], size=size, ov=ov, longlen=Ln)
                evs.append(run_call(c, 0))
        return {"events": evs}
    if mode == "ev":
        return {"ev": run_call(case["call"], case.get("variant", 0))}


if __name__ == "__main__":
    base.serve(handler)

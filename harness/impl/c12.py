"""C12 worker: fimo() in the exact lane (integer log-odds, eps=0), all representations, several thread counts."""
import os
import random
import tempfile

import numba
import numpy
import torch

from harness import tlaval
from harness.impl import base
from tangermeme.tools.fimo import fimo
from tangermeme.tools import fimo as F
import math

TMP = base.mkd("c12-")
LET = "ACGT"


def pwm_of(M, scale):
    """M: 4 x w discretised integer log-odds (in units of bin_size = 1/scale) -> probability matrix 0.25 * 2^(v/scale)"""
    return torch.tensor([[0.25 * 2.0 ** (v / scale) for v in row] for row in M], dtype=torch.float64)


def norm(dfs, names, scale, widths, by_seq=False):
    """list of DataFrames -> sorted list of [motif, seq, start, end, strand, disc score, tail count]; exact flag"""
    out, exact = [], True
    for df in dfs:
        for r in df.itertuples(index=False):
            m = int(r.motif_idx)
            sname = r.sequence_name
            s = names.index(sname) if isinstance(sname, str) else int(sname)
            sc = float(r.score) * scale
            pc = float(getattr(r, "_7", None) if not hasattr(r, "p_value") else r.p_value) if False else float(r[7]) * (4 ** widths[m])
            if abs(sc - round(sc)) > 1e-6 or abs(pc - round(pc)) > 1e-6 * max(1.0, pc):
                exact = False
            out.append([m, s, int(r.start), int(r.end), 0 if r.strand == "+" else 1, int(round(sc)), int(round(pc))])
    return sorted(out), exact


def float_table(M, scale, sd):
    pwm = pwm_of(M, scale).numpy()
    if sd:
        pwm = pwm[::-1, ::-1]
    return F._pwm_to_mapping(numpy.ascontiguousarray(numpy.log2(pwm) - math.log2(0.25)), 1.0 / scale)


def tie_below(c):
    """per motif and strand: did the FLOAT table resolve a mathematical tie tail == threshold as 'below'?  (C11 observation point)"""
    thr = c["thr"][0] / c["thr"][1]
    out = []
    for M in c["motifs"]:
        row = []
        for sd in (0, 1):
            _, t = float_table(M, c["scale"], sd)
            tie = [b for b in range(len(t)) if t[b] > -1e300 and abs(2.0 ** t[b] - thr) <= 1e-12 * thr]
            row.append(bool(tie) and bool(t[tie[0]] < math.log2(thr)))
        out.append(row)
    return out


def scan(c, variant):
    scale = c["scale"]                      # bin_size = 1/scale
    motifs = {"m%d" % i: pwm_of(M, scale) for i, M in enumerate(c["motifs"])}
    widths = [len(M[0]) for M in c["motifs"]]
    names = ["s%d" % i for i in range(len(c["seqs"]))]
    thr = c["thr"][0] / c["thr"][1]
    # the flag as a caller may hold it: Python bool, numpy bool, 0 / 1
    rcflag = [c["rc"], numpy.bool_(c["rc"]), int(c["rc"])][(variant // 7) % 3]
    kw = dict(bin_size=1.0 / scale, eps=0.0, threshold=thr, reverse_complement=rcflag)
    ev = dict(motifs=c["motifs"], seqs=c["seqs"], thr=c["thr"], rc=c["rc"], scale=scale, hits=[], exact=True, fasta_same=True,
              dim1_same=True, counts_same=True, threads_same=True, variant=variant, tielt=tie_below(c))
    fa = os.path.join(TMP, "q%d_%d.fa" % (os.getpid(), variant))
    with open(fa, "w") as f:
        for nm, s in zip(names, c["seqs"]):
            txt = "".join("N" if v < 0 else LET[v] for v in s)
            f.write(">%s\n%s\n" % (nm, (txt.lower() if variant % 2 else txt)))
    try:
        numba.set_num_threads(1 + variant % numba.config.NUMBA_NUM_THREADS)
        same_len = len({len(s) for s in c["seqs"]}) == 1
        base_hits = None
        if same_len:
            X = torch.stack([base.encode(s, 4, torch.float32 if variant % 3 else torch.int8) for s in c["seqs"]])
            h, ex = norm(fimo(motifs, X if variant % 5 else X.numpy(), **kw), names, scale, widths)
            base_hits, ev["exact"] = h, ex
        hf, exf = norm(fimo(motifs, fa, **kw), names, scale, widths)
        if base_hits is None:
            base_hits, ev["exact"] = hf, exf
        else:
            ev["fasta_same"] = hf == base_hits
        ev["hits"] = base_hits
        if c.get("light") and variant % 10:
            ev["st"] = "ok"
            return ev
        h1, _ = norm(fimo(motifs, fa, dim=1, **kw), names, scale, widths)
        ev["dim1_same"] = h1 == base_hits
        cnt = fimo(motifs, fa, return_counts=True, **kw)
        ev["counts_same"] = [int(v) for v in cnt] == [sum(1 for x in base_hits if x[0] == m) for m in range(len(widths))]
        for nt in (1, 2, numba.config.NUMBA_NUM_THREADS):
            numba.set_num_threads(nt)
            hn, _ = norm(fimo(motifs, fa, **kw), names, scale, widths)
            ev["threads_same"] &= hn == base_hits
        ev["st"] = "ok"
    except Exception as e:
        ev["st"] = "err"; ev["msg"] = "%s: %s" % (type(e).__name__, str(e)[:100])
    finally:
        for p in (fa, fa + ".fai"):
            if os.path.exists(p):
                os.remove(p)
    return ev


COLS = [[1, 0, -1, -1], [-1, 1, 0, -1], [-1, -1, 1, 0], [0, -1, -1, 1], [1, -1, 0, -1], [0, 1, -1, -1], [-1, 0, -1, 1], [-1, -1, 0, 1]]


def gen_call(rng):
    scale = rng.choice([1, 1, 2, 4])
    nm = rng.randint(1, 4)
    motifs = []
    for _ in range(nm):
        w = rng.randint(2, 6)
        cols = [rng.choice(COLS) for _ in range(w)]
        motifs.append([[cols[j][ch] * scale for j in range(w)] for ch in range(4)])
    ns = rng.randint(1, 3)
    same = rng.random() < 0.5
    L0 = rng.randint(1, 24)
    seqs = []
    for _ in range(ns):
        Ln = L0 if same else rng.randint(1, 24)
        s = [rng.randrange(4) for _ in range(Ln)]
        if rng.random() < 0.3 and Ln > 2:
            s[rng.randrange(Ln)] = -1
        # plant a motif's consensus at a random offset, favouring 0 and L - w
        M = rng.choice(motifs); w = len(M[0])
        if Ln >= w:
            off = rng.choice([0, Ln - w, rng.randint(0, Ln - w)])
            for j in range(w):
                s[off + j] = max(range(4), key=lambda ch: M[ch][j])
        seqs.append(s)
    k = max(rng.choice([3, 4, 5, 6]), max(len(M[0]) for M in motifs))
    thr = [2 * rng.randint(1, 40) + 1, 2 * 4 ** k]       # odd / (2*4^k): never equal to a tail probability j/4^w for w <= k
    if rng.random() < 0.25:
        # a threshold that IS an attainable tail probability (a tie): count / 4^w for a bin of one of the motifs
        M = rng.choice(motifs); w = len(M[0])
        _, t = float_table(M, scale, 0)
        cnts = sorted({int(round(2.0 ** v * 4 ** w)) for v in t if v > -1e300} - {0, 4 ** w})
        if cnts:
            thr = [rng.choice(cnts), 4 ** w]
    return dict(motifs=motifs, seqs=seqs, thr=thr, rc=rng.random() < 0.7, scale=scale)


def handler(case):
    mode = case.get("mode", "m1")
    if mode == "m1":
        st = tlaval.parse_state_body(case["state"])
        c = dict(motifs=[st["motif"]], seqs=[st["seq"]], thr=st["thr"], rc=True, scale=1, light=True)
        ev = scan(c, case["id"])
        want = sorted([list(h) for h in st["hits"]])
        v = ""
        if ev["st"] != "ok":
            v = "fimo raised on a valid input"
        elif not ev["exact"]:
            v = "a reported score or p-value is not on the exact grid"
        elif ev["hits"] != want:
            gk = {tuple(h[:3] + [h[4]]) for h in ev["hits"]}; wk = {tuple(h[:3] + [h[4]]) for h in want}
            v = "a window whose score exceeds the threshold is not reported" if wk - gk else (
                "a window that does not exceed the threshold is reported" if gk - wk else "a hit has a wrong end / score / p-value")
        elif not (ev["fasta_same"] and ev["dim1_same"] and ev["counts_same"] and ev["threads_same"]):
            v = "representations (FASTA / dim=1 / counts / threads) disagree"
        L, w = len(st["seq"]), len(st["motif"][0])
        out = {"v": v, "op": "scan", "zone": "accept", "nontrivial": any(h[2] in (0, L - w) for h in want)}
        if v or case["id"] % 2999 == 0:
            out["ev"] = dict(op="scan", motif=st["motif"], seq=st["seq"], thr=st["thr"], st=ev["st"], y=ev["hits"], variant=case["id"],
                             msg=ev.get("msg"))
            out["exp"] = dict(hits=want)
        return out
    if mode == "m2":
        rng = random.Random(case["seed"])
        evs = []
        for _ in range(case["n"]):
            e = scan(gen_call(rng), rng.randrange(1000)); e["op"] = "scan"
            evs.append(e)
        return {"events": evs}
    if mode == "ev":
        e = scan(case["call"], case.get("variant", 0)); e["op"] = "scan"
        return {"ev": e}


if __name__ == "__main__":
    base.serve(handler)

"""C03 worker: predict() driven with a recording exact-integer model; emits call / forward / return events."""
import random

import torch

from harness.impl import base
from tangermeme.predict import predict

L = 4   # row id encoded in base 4 over L positions of a one-hot sequence


def enc_rows(n, dtype):
    x = torch.zeros(n, 4, L, dtype=dtype)
    for i in range(n):
        v = i
        for p in range(L):
            x[i, v % 4, p] = 1
            v //= 4
    return x


def dec_rows(X):
    idx = X.argmax(dim=1)
    w = torch.tensor([4 ** p for p in range(L)])
    return (idx * w[None, :]).sum(dim=1).tolist()


class Recorder(torch.nn.Module):
    def __init__(self, kind, log, pdtype=torch.float64):
        super().__init__()
        self.kind, self.log = kind, log
        self.argdtypes = None
        self.w = torch.nn.Parameter(torch.ones(1, dtype=pdtype))
        self.drop = torch.nn.Dropout(0.5)
        self.bn = torch.nn.BatchNorm1d(1)

    def forward(self, X, *args):
        rows = dec_rows(X)
        self.log.append(dict(ev="forward", rows=rows, args=[[int(v) // 10 for v in a.reshape(len(a), -1)[:, 0].tolist()] for a in args],
                             training=bool(any(m.training for m in self.modules())), grad=bool(torch.is_grad_enabled()),
                             argdtype_ok=self.argdtypes is None or [a.dtype for a in args] == self.argdtypes))
        r = torch.tensor(rows, dtype=self.w.dtype).reshape(-1, 1) * self.w
        r = self.drop(torch.ones_like(r)) * r if self.training else r       # train mode would perturb the outputs
        if self.kind == "tensor":
            return r
        if self.kind == "tuple1":          # a container holding exactly one tensor is still a container
            return (r,)
        # second output: either computed, or the input batch itself passed through (an output that is a view of its input)
        outs = (r, X if getattr(self, "echo", False) else r.repeat(1, 2).reshape(-1, 2, 1))
        return outs if self.kind == "tuple" else list(outs)


def one_call(n, b, nargs, bad_arg, kind, dt, cid):
    log = []
    model = Recorder(kind, log, pdtype=torch.float32 if dt % 4 == 3 else torch.float64)
    model.echo = cid % 3 == 0
    model.train()
    if dt % 3 == 1:          # a model whose root is in eval mode while a sub-module is still in training mode
        model.eval(); model.drop.train(); model.bn.train()
    X = enc_rows(n, [torch.float32, torch.int8, torch.float64][dt % 3])
    args = None
    argn = []
    if nargs:
        args = []
        for k in range(nargs):
            m = n + (1 if (bad_arg == 1 and k == nargs - 1) else (-1 if (bad_arg == 2 and k == 0 and n > 1) else 0))
            a = (torch.arange(m, dtype=torch.float64) * 10 + k).reshape(m, 1) if k != 1 else torch.arange(m) * 10 + k
            args.append(a); argn.append(m)
        args = tuple(args) if dt % 2 else args
        model.argdtypes = [a.dtype for a in args]
    tens = [X] + (list(args) if args else [])
    d0 = [base.tdig(t) for t in tens]
    evs = [dict(ev="call", id=cid, n=n, b=b, argn=argn, kind=kind)]
    ret = dict(ev="return", outs=[], nout=1 if kind in ("tensor", "tuple1") else 2, container="", want_container="tensor" if kind == "tensor" else "list")
    try:
        y = predict(model, X, args=args, batch_size=b, device="cpu")
        ret["st"] = "ok"
        ret["container"] = "tensor" if isinstance(y, torch.Tensor) else "list"
        ys = [y] if isinstance(y, torch.Tensor) else list(y)
        ret["outs"] = [dec_rows(t) if (t.ndim == 3 and tuple(t.shape[1:]) == (4, L)) else
                       [int(round(v)) for v in t.reshape(t.shape[0], -1)[:, 0].tolist()] for t in ys]
    except Exception as e:
        ret["st"] = "err"; ret["kind"] = type(e).__name__
    ret["same"] = [base.tdig(t) for t in tens] == d0
    return evs + log + [ret]


def handler(case):
    evs = []
    for (cid, n, b, nargs, bad_arg, kind, dt) in case["calls"]:
        evs += one_call(n, b, nargs, bad_arg, kind, dt, cid)
    return {"events": evs}


if __name__ == "__main__":
    base.serve(handler)

"""C20 worker: greedy_substitution against the exact-integer linear read-out of spec/Greedy.tla."""
import torch

from harness import tlaval
from harness.impl import base
from tangermeme.design import greedy_substitution
from tangermeme.predict import predict

LETTERS = "ACGT"


def wt(t, p, c, km):
    return (((c + 1) * (p + km) + t * c * c + km) % 5) - 2


class ReadOut(torch.nn.Module):
    def __init__(self, L, km, T=2):
        super().__init__()
        W = torch.zeros(T, 4, L, dtype=torch.float32)
        for t in range(T):
            for p in range(L):
                for c in range(4):
                    W[t, c, p] = wt(t, p + 1, c, km)
        self.lin = torch.nn.Linear(4 * L, T, bias=False)
        with torch.no_grad():
            self.lin.weight.copy_(W.reshape(T, -1))

    def forward(self, X):
        y = self.lin(X.flatten(1))
        poison = getattr(self, "poison", ())
        if poison:
            # outputs the caller masks OUT are not finite for some sequences (a log-count head at zero): they must not matter
            y = y.clone()
            for t in poison:
                y[:, t] = torch.where(y[:, t] % 2 == 0, torch.full_like(y[:, t], float("inf")), y[:, t])
        return y


def run_problem(pr, variant):
    L = len(pr["x"])
    model = ReadOut(L, pr["km"])
    X = base.encode(pr["x"], 4, torch.float32).unsqueeze(0)
    d0 = base.tdig(X)
    motifs = ["".join(LETTERS[s] for s in m) for m in pr["motifs"]]
    y = torch.tensor([pr["y"]], dtype=torch.float32)
    mask = torch.tensor([t in pr["mask"] for t in range(2)])
    kw = {}
    if not (len(pr["mask"]) == 2 and variant % 2):
        kw["mask"] = mask
    if len(pr["mask"]) < 2 and variant % 3 == 0:
        model.poison = tuple(t for t in range(2) if t not in pr["mask"])
    if pr.get("loss") == "asym":
        # loss(y, y_hat): squared error, three times as costly when the prediction overshoots the target
        kw["loss"] = lambda y_, yh_: torch.where(yh_ > y_, 3.0, 1.0) * (y_ - yh_) ** 2
    # the letters in another order by turns: symbol s is alphabet[s]
    rot = (variant // 16 + variant) % 4          # varies WITHIN a worker process too (a worker gets every 16th case)
    alphabet = [LETTERS[(k + rot) % 4] for k in range(4)]
    kw["alphabet"] = alphabet
    motifs = ["".join(alphabet[s] for s in m) for m in pr["motifs"]]
    out = dict()
    try:
        R = greedy_substitution(model, X, motifs, y, tol=pr["tol2"] / 2.0, max_iter=pr["maxit"],
                                batch_size=[1, 2, 3, 32][variant % 4], device="cpu", **kw)
        out["st"] = "ok"
        dec = base.decode(R[0], allow_n=False) if R.ndim == 3 and R.shape[0] == 1 else "INVALID"
        out["x"] = dec
        if dec != "INVALID":
            model.poison = ()
            yh = predict(model, R.float(), device="cpu")
            err = (y - yh) ** 2
            if pr.get("loss") == "asym":
                err = torch.where(yh > y, 3.0, 1.0) * err
            out["sl"] = int(round(float(err[:, mask].sum())))
    except Exception as e:
        out["st"] = "err"; out["msg"] = "%s: %s" % (type(e).__name__, str(e)[:100])
    out["same"] = base.tdig(X) == d0
    return out


def handler(case):
    pr = tlaval.parse_value(case["prob"])
    pr["mask"] = sorted(pr["mask"])
    r = run_problem(pr, case["id"])
    finals = case["finals"]          # list of [x, sl]
    v = ""
    if not r["same"]:
        v = "the starting sequence tensor was modified"
    elif r["st"] != "ok":
        v = "raised: " + r.get("msg", "")
    elif r["x"] == "INVALID" or len(r["x"]) != len(pr["x"]):
        v = "result is not a valid one-hot sequence of the original length"
    elif not any(r["x"] == f[0] for f in finals):
        v = "returned sequence is not a result of taking a best (motif, position) substitution at each step"
    elif not any(r["x"] == f[0] and r["sl"] == f[1] for f in finals):
        v = "loss of the returned sequence differs from the specified one (model mirror out of date?)"
    last = any(len(pr["x"]) - len(m) > 0 for m in pr["motifs"])
    out = {"v": v, "op": "greedy", "zone": "accept", "nontrivial": len(finals) > 1 or any(f[0] != pr["x"] for f in finals)}
    if v or case["id"] % 397 == 0:
        out["ev"] = dict(op="greedy", prob=pr, st=r["st"], y=r.get("x"), variant=case["id"])
        out["exp"] = dict(admissible=finals)
    return out


if __name__ == "__main__":
    base.serve(handler)

"""C02 worker.
   m1:  a 'done' state of DinucWalk (sequence, chosen permutations, expected walks) replayed into
        ersatz._fast_shuffle.py_func with numpy.random.permutation replaced by a scripted source
   m2:  random public calls of shuffle / dinucleotide_shuffle, each configuration repeated later (determinism)"""
import random

import numpy
import torch

from harness import tlaval
from harness.impl import base
from tangermeme import ersatz


class ScriptMismatch(Exception):
    pass


class _FakeRandom:
    def __init__(self, script):
        self.script = list(script)
        self.asked = []

    def seed(self, s):
        pass

    def permutation(self, n):
        self.asked.append(int(n))
        if not self.script:
            raise ScriptMismatch("more permutations requested than the model has steps")
        want = self.script.pop(0)
        if max(int(n), 0) != len(want):
            raise ScriptMismatch("requested a permutation of %d elements where the model permutes %d" % (n, len(want)))
        return numpy.array(want, dtype=numpy.int64)


class _FakeNumpy:
    def __init__(self, script):
        self.random = _FakeRandom(script)

    def __getattr__(self, name):
        return getattr(numpy, name)


def replay_walk(s, hist, A, n_shuffles):
    """Run the real _fast_shuffle (pure-Python body) on region s with the scripted permutations; returns decoded walks."""
    f = getattr(ersatz._fast_shuffle, "py_func", None)
    if f is None:
        return {"st": "lane-unavailable"}
    L = len(s)
    idxs = numpy.array(s, dtype=numpy.int32)
    next_idxs = numpy.zeros((A, L), dtype=numpy.int32)
    counts = numpy.zeros(A, dtype=numpy.int32)
    for ch in range(A):
        w = numpy.where(idxs[:-1] == ch)[0]
        next_idxs[ch][:len(w)] = w + 1
        counts[ch] = len(w)
    out = numpy.zeros((n_shuffles, A, L), dtype=numpy.float32)
    counters = numpy.zeros((n_shuffles, A), dtype=numpy.int32)
    # model permutation p (1-based, last fixed) -> the n-1 leading entries, 0-based, as numpy.random.permutation(n-1) returns
    script = [[v - 1 for v in p[:-1]] for p in hist]
    fake = _FakeNumpy(script)
    g = f.__globals__
    old = g["numpy"]
    g["numpy"] = fake
    try:
        f(n_shuffles, A, idxs, next_idxs, counts, counters, out, 0)
        st = "ok"; msg = ""
    except ScriptMismatch as e:
        st = "mismatch"; msg = str(e)
    except Exception as e:
        st = "err"; msg = "%s: %s" % (type(e).__name__, e)
    finally:
        g["numpy"] = old
    walks = [base.decode(torch.from_numpy(out[j]), allow_n=False) for j in range(n_shuffles)]
    left = len(fake.random.script)
    return {"st": st, "msg": msg, "walks": walks, "script_left": left, "consumed": counters.tolist(), "counts": counts.tolist()}


def public_call(c):
    A = c["A"]
    x = base.encode_batch(c["x"], A, [torch.float32, torch.int8, torch.float64, torch.int64, torch.float16, torch.bfloat16, torch.uint8][c.get("dt", 0) % 7])
    d0 = base.tdig(x)
    ev = dict(c)
    ev.update(y=[], valid=True)
    try:
        kw = {}
        if c["end"] != -1 or c["op"] == "shuffle":
            kw["end"] = c["end"]
        seed = c["seed"]
        if c.get("npseed") and seed < 2 ** 63:
            seed = numpy.int64(seed)         # an integer seed may arrive as a numpy integer (e.g. taken from an array)
        if c["op"] == "shuffle":
            y = ersatz.shuffle(x, start=c["start"], n=c["n"], random_state=seed, **kw)
        else:
            y = ersatz.dinucleotide_shuffle(x, start=c["start"], n=c["n"], random_state=seed, **kw)
        ev["st"] = "ok"
        ok = y.ndim == 4 and y.shape[0] == x.shape[0] and y.shape[1] == c["n"] and tuple(y.shape[2:]) == tuple(x.shape[1:])
        if ok:
            dec = [[base.decode(y[i, j], allow_n=False) for j in range(y.shape[1])] for i in range(y.shape[0])]
            ok = not any(d == "INVALID" for row in dec for d in row)
        if ok:
            ev["y"] = dec
        else:
            ev["valid"] = False
    except Exception as e:
        ev["st"] = "err"; ev["kind"] = type(e).__name__; ev["msg"] = str(e)[:100]
    ev["same"] = base.tdig(x) == d0
    return ev


def gen_public(rng, key):
    A = rng.randint(2, 4)
    L = rng.randint(3, 40)
    nb = rng.randint(1, 3)
    op = rng.choice(["shuffle", "dinuc"])
    x = [[rng.randrange(A) for _ in range(L)] for _ in range(nb)]
    r = rng.random()
    if r < 0.25:
        start, end = 0, -1
    elif r < 0.85:
        start = rng.randint(0, L - 2)
        end = rng.randint(start + 1, L)
        if op == "dinuc" and rng.random() < 0.6:
            end = min(L, start + rng.randint(3, 12))
    else:
        start = rng.choice([-1, 0, L - 1, L]); end = rng.choice([0, L + 1, start, -2, L])
    if op == "dinuc" and not (0 <= start < (end if end >= 0 else L) <= L):
        start, end = 0, -1        # dinucleotide_shuffle slices without validating: only in-range regions are driven
    n = 1 if rng.random() < 0.6 else rng.randint(2, 3)
    seed = rng.randint(0, 10 ** 6)
    if rng.random() < 0.25:      # "all seeds": also the edges of the 32-bit range (the jitted walk takes its seed as int32)
        seed = rng.choice([2 ** 31 - 1 - rng.randint(0, 3), 2 ** 31 + rng.randint(0, 1000), 2 ** 32 - 1 - rng.randint(0, 50), 2 ** 31])
    return dict(op=op, A=A, x=x, start=start, end=end, n=n, seed=seed, key=key, dt=rng.randrange(4), npseed=rng.random() < 0.3)


def gen_long(rng, key):
    """a region in which one character occurs several hundred times (beyond 8-bit counters and half-precision integers)"""
    A = 4
    L = rng.choice([600, 1300])
    w = [6, 2, 1, 1]; rng.shuffle(w)
    x = [rng.choices(range(A), weights=w, k=L)]
    start = rng.choice([0, 0, rng.randint(1, 20)])
    end = rng.choice([-1, L, L - rng.randint(1, 20)])
    return dict(op=rng.choice(["shuffle", "dinuc", "dinuc"]), A=A, x=x, start=start, end=end, n=rng.choice([1, 2]), seed=rng.randint(0, 10 ** 6),
                key=key, dt=rng.choice([1, 4, 5, 6, 0]), npseed=False)


def handler(case):
    mode = case.get("mode", "m1")
    if mode == "m1":
        st = tlaval.parse_state_body(case["state"])
        s, hist, outs = st["s"], st["hist"], st["outs"]
        A = case["A"]
        r = replay_walk(s, hist, A, len(outs))
        if r["st"] == "lane-unavailable":
            return {"v": "", "op": "lane-unavailable", "zone": "na"}
        v = ""
        if r["st"] == "mismatch":
            v = "the implementation asked its random source for a permutation the model does not allow: " + r["msg"]
        elif r["st"] == "err":
            v = "the walk raised (stranded?): " + r["msg"]
        elif r["script_left"]:
            v = "the implementation drew fewer permutations than the model"
        elif r["walks"] != outs:
            v = "walk differs from the model's for the same permutations"
        elif any(row != r["counts"] for row in r["consumed"]):
            v = "the walk did not consume every transition"
        out = {"v": v, "op": "walk", "zone": "accept", "nontrivial": len(set(s)) > 1 and len(s) > 2}
        if v or case["id"] % 1999 == 0:
            out["ev"] = dict(op="walk", s=s, hist=hist, st=r["st"], y=r.get("walks"))
            out["exp"] = dict(outs=outs)
        return out
    if mode == "m2":
        rng = random.Random(case["seed"])
        calls = []
        key = case["id"] * 100000 + 1
        for _ in range(case["n"] // 2):
            calls.append(gen_public(rng, key)); key += 1
        for _ in range(2):
            calls.append(gen_long(rng, key)); key += 1
        rep = [dict(c) for c in calls]
        for c in rep:
            c["npseed"] = not c["npseed"]            # the repetition uses the other integer type for the same seed
        # the same region (content, coordinates, n, seed) embedded in DIFFERENT flanks: flanks must come from the actual input
        twins = []
        for c in calls[::3]:
            L = len(c["x"][0]); e = c["end"] if c["end"] >= 0 else L
            if 0 <= c["start"] < e <= L and (c["start"] > 0 or e < L):
                t = dict(c); key += 1; t["key"] = key
                t["x"] = [[(v if c["start"] <= q < e else (v + 1 + rng.randrange(c["A"] - 1)) % c["A"]) for q, v in enumerate(row)] for row in c["x"]]
                twins.append(t)
        rng.shuffle(rep)
        evs = [public_call(c) for c in calls + twins + rep]
        return {"events": evs}
    if mode == "xproc":
        # seeded calls on short, low-complexity regions with n = 2, 3 (all shuffles may coincide: retry / raise paths); the
        # outcomes are compared between interpreter processes started with different hash salts
        rng = random.Random(case["seed"])
        outs = []
        for k in range(case["n"]):
            L = rng.randint(6, 12)
            c = dict(op="dinuc", A=4, x=[[rng.choice([0, 0, 1, 2, 3]) for _ in range(L)]], start=0, end=-1, n=rng.choice([2, 3]),
                     seed=rng.randint(0, 50), key=0, dt=k % 4, npseed=False)
            e = public_call(c)
            outs.append([e["st"], e.get("kind", ""), e["y"]])
        return {"outs": outs}
    if mode == "ev":
        return {"ev": public_call(case["call"])}


if __name__ == "__main__":
    base.serve(handler)

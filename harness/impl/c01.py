"""C01 worker: executes ersatz primitives. Modes:
   m1: case = {id, state: <dump text of a 'ret' state>} -> verdict computed against the state's exp
   m2: case = {id, mode:'m2', seed, n} -> list of recorded events for Ersatz_Trace
   ev: case = {id, mode:'ev', call:{...}} -> one event (used by replay)"""
import random

import torch

from harness import tlaval
from harness.impl import base

from tangermeme import ersatz

NOSTART = 9999
LETTERS = "ACGTUW"
DTYPES = [torch.int8, torch.float32, torch.int64, torch.float64, torch.uint8, torch.int32]


def run_call(c, variant):
    """Execute one call record; returns an event dict (without id)."""
    A = c["A"]
    dtype = DTYPES[variant % len(DTYPES)]
    x = base.encode_batch(c["x"], A, dtype)
    mos = [base.encode_batch(mb, A, dtype) for mb in c["mo"]]
    start = None if c["start"] == NOSTART else c["start"]
    as_string = (variant // 7) % 2 == 1 and all(len(mb) == 1 for mb in c["mo"])
    rot = (variant // 14) % A            # the same letters in another order: symbol s is alphabet[s], whatever the order
    alphabet = [LETTERS[(k + rot) % A] for k in range(A)]
    if as_string:
        mo_args = ["".join(alphabet[s] for s in mb[0]) for mb in c["mo"]]
        if len(mo_args) > 1 and (variant // 5) % 2:
            # a motif list in mixed forms: strings and one-hot tensors side by side (first a string, or first a tensor)
            first = (variant // 10) % 2
            mo_args = [(m if (k % 2 == first) else mos[k]) for k, m in enumerate(mo_args)]
    else:
        mo_args = mos
    ins = [x] + mos
    before = [base.tdig(t) for t in ins]
    sp_arg, sp_copy = None, None
    op = c["op"]
    ev = dict(op=op, A=A, x=c["x"], mo=c["mo"], start=c["start"], end=c["end"], sp=c["sp"], valid=True, y=[],
              variant=variant)
    try:
        if op == "substitute":
            y = ersatz.substitute(x, mo_args[0], start=start, alphabet=alphabet)
        elif op == "insert":
            y = ersatz.insert(x, mo_args[0], start=start, alphabet=alphabet)
        elif op == "delete":
            y = ersatz.delete(x, c["start"], c["end"])
        elif op == "multisubstitute":
            sp = list(c["sp"])
            if len(sp) >= 1 and len(set(sp)) == 1 and (variant // 3) % 2 == 1:
                sp = sp[0]           # the API also accepts one integer for a constant spacing
            sp_arg, sp_copy = sp, (list(sp) if isinstance(sp, list) else sp)
            mo_copy = list(mo_args)
            y = ersatz.multisubstitute(x, mo_args, sp, start=start, alphabet=alphabet)
            if len(mo_args) != len(mo_copy) or any(a is not b for a, b in zip(mo_args, mo_copy)):
                sp_copy = "motif list modified"
        elif op == "randomize":
            probs = torch.tensor([[1.0 / A] * A], dtype=torch.float64)
            y = ersatz.randomize(x, c["start"], c["end"], probs=probs, n=1 + variant % 2, random_state=variant)
        else:
            raise RuntimeError("unknown op")
        ev["st"] = "ok"
        if op == "randomize":
            dec = [[base.decode(y[i, j], allow_n=False) for j in range(y.shape[1])] for i in range(y.shape[0])] \
                if y.ndim == 4 else "INVALID"
            if dec == "INVALID" or any(d == "INVALID" for row in dec for d in row):
                ev["valid"] = False
            else:
                ev["y"] = dec
        else:
            dec = [base.decode(y[i], allow_n=False) for i in range(y.shape[0])] if y.ndim == 3 else ["INVALID"]
            if any(d == "INVALID" for d in dec) or y.shape[1] != A:
                ev["valid"] = False
            else:
                ev["y"] = dec
    except Exception as e:
        ev["st"] = "err"
        ev["kind"] = type(e).__name__
    after = [base.tdig(t) for t in ins]
    ev["same"] = before == after and sp_arg == sp_copy      # list arguments (spacing, motif list) count as the caller's data too
    return ev


def verdict_m1(ev, exp):
    if not ev["same"]:
        return "a caller's tensor was modified"
    if exp["zone"] == "reject" and ev["st"] != "err":
        return "accepted a position/span that is not wholly inside the sequence (or a mis-sized motif batch)"
    if exp["zone"] == "accept" and ev["st"] != "ok":
        return "rejected a call whose span lies wholly inside the sequence"
    if ev["st"] == "ok" and not ev["valid"]:
        return "output is not a valid one-hot encoding"
    if ev["st"] == "ok" and ev["op"] != "randomize" and ev["y"] != exp["y"]:
        return "wrong result"
    return ""


def gen_call(rng):
    A = rng.randint(2, 6)
    n = rng.randint(1, 5)
    L = rng.randint(1, 60)
    x = [[rng.randrange(A) for _ in range(L)] for _ in range(n)]
    # make sure both 0 and 1 appear in the one-hot (always true for A>=2)
    op = rng.choice(["substitute", "insert", "delete", "multisubstitute", "randomize"])

    def motif_batch(m):
        k = rng.choice([1, 1, n, n, n + 1 if rng.random() < 0.1 else 1])
        return [[rng.randrange(A) for _ in range(m)] for _ in range(k)]

    def pos(lo, hi):
        r = rng.random()
        if r < 0.15:
            return rng.choice([lo - 1, lo - 2, hi + 1, hi + 2, -1, -L])
        if r < 0.4:
            return rng.choice([lo, hi, max(lo, hi - 1), min(hi, lo + 1)])
        return rng.randint(min(lo, hi), max(lo, hi))

    c = dict(op=op, A=A, x=x, mo=[], start=0, end=0, sp=[])
    if op in ("substitute", "insert"):
        m = rng.randint(1, min(L + 1, 12))
        c["mo"] = [motif_batch(m)]
        c["start"] = NOSTART if rng.random() < 0.15 else pos(0, L - m if op == "substitute" else L)
    elif op == "delete":
        c["start"] = pos(0, L)
        c["end"] = pos(0, L)
    elif op == "randomize":
        c["start"] = pos(0, L)
        c["end"] = pos(0, L)
    else:
        k = rng.randint(1, 4)
        lens = [rng.randint(1, max(1, min(6, L // k))) for _ in range(k)]
        c["mo"] = [motif_batch(m) for m in lens]
        c["sp"] = [rng.choice([0, 0, 1, 2, 3, rng.randint(0, max(0, L // k))]) for _ in range(k - 1)]
        if rng.random() < 0.05 and c["sp"]:
            c["sp"][0] = -1
        tot = sum(lens) + sum(c["sp"])
        c["start"] = NOSTART if rng.random() < 0.2 else pos(0, L - tot)
    return c


def handler(case):
    mode = case.get("mode", "m1")
    if mode == "m1":
        st = tlaval.parse_state_body(case["state"])
        c, exp = st["call"], st["exp"]
        c["A"] = case["A"]
        ev = run_call(c, case["id"])
        v = verdict_m1(ev, exp)
        Lx = len(c["x"][0]); m_ = len(c["mo"][0][0]) if c["mo"] else 0
        s_, e_ = c["start"], c["end"]
        if c["op"] in ("delete", "randomize"):
            nt = s_ <= 0 or e_ >= Lx - 1 or abs(e_ - s_) <= 1
        else:
            nt = any(len(mb) != 1 for mb in c["mo"]) or s_ == NOSTART or s_ <= 0 or s_ >= Lx - m_ - 1
        out = {"v": v, "zone": exp["zone"], "op": c["op"], "st": ev["st"], "nontrivial": bool(nt)}
        if v or c["op"] == "randomize" or case["id"] % 997 == 0:
            out["ev"] = ev
            out["exp"] = exp
        return out
    if mode == "m2":
        rng = random.Random(case["seed"])
        evs = []
        for k in range(case["n"]):
            c = gen_call(rng)
            ev = run_call(c, rng.randrange(1000))
            evs.append(ev)
        return {"events": evs}
    if mode == "ev":
        return {"ev": run_call(case["call"], case.get("variant", 0))}
    raise RuntimeError(mode)


if __name__ == "__main__":
    base.serve(handler)

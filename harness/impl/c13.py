"""C13 worker: compiled tomtom under many schedules / batch compositions (mode hist), annotate_seqlets, and the poison lane:
the pure-Python bodies (py_func) of _tomtom and its callees with numpy.empty replaced by an allocator that fills scratch
with NaN or with 77 -- results must not change (binds the read/write sets of TomtomSched.tla to the code)."""
import random

import numba
import numpy
import pandas
import torch

from harness.impl import base
import tangermeme.tools.tomtom as TT
from tangermeme.tools.tomtom import tomtom


def rand_pwm(rng, L):
    cols = []
    for _ in range(L):
        g = [rng.gammavariate(rng.choice([0.2, 0.6, 2.0]), 1.0) + 1e-9 for _ in range(4)]
        s = sum(g)
        cols.append([v / s for v in g])
    return numpy.array(cols, dtype=numpy.float64).T


def pools(seed, nq=6, nt=7):
    rng = random.Random(seed)
    lens = [3, 12, 5, 9, 4, 7, 11, 6][:nq]
    Q = [rand_pwm(rng, L) for L in lens]
    T = [rand_pwm(rng, rng.randint(4, 11)) for _ in range(nt)]
    T[0] = Q[1].copy()
    if nq > 4:
        # a query that is a PREFIX of the longer query listed just before it (same leading columns): per-thread shortcuts that
        # compare only the current query's columns must not take it for a repetition
        Q[2] = Q[1][:, :lens[2]].copy()
        Q[4] = Q[3][:, :lens[4]].copy()
    # a database that contains one motif three times (merged collections): exactly tied p-values, at low target indices, so that an
    # n_nearest cut can fall inside the tie while strictly better targets sit at higher indices
    if nt > 4:
        T[2] = T[1].copy()
        T[4] = T[1].copy()
        if nq > 3:
            T[nt - 1] = Q[3].copy()
    return Q, T


def pools_onehot(seed, nq=6, nt=8):
    """a database of one-hot, low-complexity motifs (consensus sequences): many comparisons have no similarity at all, so p-values
    of exactly 1 occur and fewer than n_nearest targets may be better than 'nothing'"""
    rng = random.Random(seed * 31 + 7)

    def oh(L):
        letters = rng.sample(range(4), 2)
        a = numpy.zeros((4, L))
        for j in range(L):
            a[letters[0] if rng.random() < 0.75 else letters[1], j] = 1
        return a
    Q = [oh(L) for L in [4, 4, 5, 7, 5, 6][:nq]]
    T = [oh(rng.randint(4, 6)) for _ in range(nt)]
    T[nt - 2] = Q[2].copy()
    # the pooled target columns hold all four letters, so that no query column is equidistant to every target column (the
    # integeriser divides by that range: all-equal similarities are outside tomtom's domain)
    allfour = numpy.zeros((4, 5))
    for j, ch in enumerate([0, 1, 2, 3, 0]):
        allfour[ch, j] = 1
    T[0] = allfour
    return Q, T


def row_digest(res, qi):
    # res: (5 or 6, n_queries, n_targets) float64 tensor
    a = res[:, qi].contiguous().numpy()
    return base.crc(a.tobytes())


def run_hist(c):
    """c: seed, threads, qidx, rc, tbins, n_nearest -> events"""
    Q, T = pools_onehot(c["seed"]) if c.get("onehot") else pools(c["seed"])
    kw = dict(reverse_complement=c["rc"], n_target_bins=c["tbins"] or None, n_score_bins=c.get("sbins", 100))
    cfgkey = (c["seed"] % 1000) * 8 + (4 if c["rc"] else 0) + {0: 0, 100: 1, 30: 2}[c["tbins"]] + (100000 if c.get("onehot") else 0)
    evs = []
    before = numba.get_num_threads()
    try:
        res = tomtom([torch.from_numpy(Q[i]) for i in c["qidx"]] if c.get("as_torch") else [Q[i] for i in c["qidx"]],
                     [torch.from_numpy(t) for t in T], n_jobs=c["threads"], **kw)
        st = "ok"
    except Exception as e:
        res, st = None, "err"
    after = numba.get_num_threads()
    for pos, qi in enumerate(c["qidx"]):
        evs.append(dict(ev="row", qkey=cfgkey * 100 + qi, dig=row_digest(res, pos) if st == "ok" else 0, threads=c["threads"],
                        pos=pos, len=int(Q[qi].shape[1]), st=st, hist=c["qidx"]))
    if st == "ok" and c.get("n_nearest"):
        n = c["n_nearest"]
        sel = tomtom([Q[i] for i in c["qidx"]], [torch.from_numpy(t) for t in T], n_nearest=n, n_jobs=c["threads"], **kw)
        for pos, qi in enumerate(c["qidx"]):
            full = res[0, pos].tolist()
            order = sorted(set(full))
            rank = {v: k for k, v in enumerate(order)}
            idx = [int(v) for v in sel[5, pos].tolist()]
            sp = sel[0, pos].tolist()
            ok_idx = all(0 <= i < len(full) for i in idx)
            fields_same = ok_idx and all(bool((sel[:5, pos, k] == res[:5, pos, idx[k]]).all()) for k in range(len(idx)))
            evs.append(dict(ev="select", n=n, full=[rank[v] for v in full], idx=idx, sel=[rank.get(v, -1) for v in sp],
                            fields_same=bool(fields_same), st="ok", hist=c["qidx"], threads=c["threads"]))
    if after != before:
        evs.append(dict(ev="note", note="numba thread count changed from %d to %d" % (before, after)))
        numba.set_num_threads(before)
    return evs


def run_annotate(c):
    from tangermeme.annotate import annotate_seqlets
    rng = random.Random(c["seed"])
    Q, T = pools(c["seed"])
    X = torch.zeros(3, 4, 40)
    idx = torch.randint(0, 4, (3, 40), generator=torch.Generator().manual_seed(c["seed"]))
    X.scatter_(1, idx.unsqueeze(1), 1.0)
    # example 1 is a twin of example 0 except that example 0 has an unknown character (all-zero column) where the twin has 'A':
    # seqlets over that position must not be confused with each other, whichever is processed together with which
    X[1] = X[0]
    X[1, :, 10] = 0; X[1, 0, 10] = 1
    X[0, :, 10] = 0
    rows = [[rng.randrange(3), s, s + rng.randint(4, 12)] for s in [rng.randint(0, 25) for _ in range(4)]]
    rows += [[0, 6, 15], [1, 6, 15]]
    motifs = {"t%d" % i: torch.from_numpy(t) for i, t in enumerate(T)}
    evs = []
    digs = {}
    for order in ([4], [5], list(range(6)), [5, 3, 1, 0, 2, 4], [2, 2, 0], [5, 4], [4, 5]):
        for threads in (1, c["threads"]):
            df = pandas.DataFrame([rows[i] for i in order], columns=["example_idx", "start", "end"])
            if len(order) > 2 and threads == 1:
                # a table that was re-ordered / filtered without reset_index: labels are not 0..n-1 in order (row ORDER is what counts)
                df.index = [17 - 3 * k for k in range(len(df))] if order[0] == 5 else list(range(len(df)))[::-1]
            try:
                idxs, pv = annotate_seqlets(X, df, motifs, n_nearest=2, n_jobs=threads)
                for pos, i in enumerate(order):
                    d = base.crc(idxs[pos].numpy().tobytes() + pv[pos].numpy().tobytes())
                    evs.append(dict(ev="row", qkey=9000000 + (c["seed"] % 1000) * 10 + i, dig=d, threads=threads, pos=pos,
                                    len=rows[i][2] - rows[i][1], st="ok", hist=order))
            except Exception as e:
                evs.append(dict(ev="row", qkey=9000000 + (c["seed"] % 1000) * 10, dig=0, threads=threads, pos=0, len=0, st="err", hist=order))
    return evs


# ------------------------------------------------------------------ poison lane
class _PoisonNumpy:
    def __init__(self, fill):
        self.fill = fill

    def empty(self, shape, dtype="float64"):
        a = numpy.empty(shape, dtype=dtype)
        if numpy.issubdtype(a.dtype, numpy.floating):
            a[...] = self.fill
        else:
            a[...] = 77 if self.fill == self.fill else 101
        return a

    def __getattr__(self, name):
        return getattr(numpy, name)


class _FakeNumba:
    @staticmethod
    def get_num_threads():
        return 1

    @staticmethod
    def get_thread_id():
        return 0


def tomtom_py(Qs, Ts, fill, **kw):
    g = TT._tomtom.py_func.__globals__
    names = ["_binned_median", "_integer_distances_and_histogram", "_pairwise_max", "_p_value_backgrounds", "_p_values",
             "_merge_rc_results", "_tomtom"]
    saved = {k: g[k] for k in names + ["prange", "uint64", "numba", "numpy"]}
    try:
        for k in names:
            g[k] = saved[k].py_func
        g["prange"] = range
        g["uint64"] = int
        g["numba"] = _FakeNumba
        g["numpy"] = _PoisonNumpy(fill)
        return tomtom(Qs, Ts, **kw)
    finally:
        g.update(saved)


def run_poison(c):
    Q, T = pools(c["seed"], nq=4, nt=3)
    Q = [q[:, :min(q.shape[1], 4)] for q in Q]; T = [t[:, :4] for t in T]
    kw = dict(reverse_complement=c["rc"], n_target_bins=None, n_score_bins=20, n_median_bins=50, n_cache=40)
    qs = [Q[i] for i in c["qidx"]]
    ref = tomtom(qs, [torch.from_numpy(t) for t in T], n_jobs=1, **kw)
    evs = []
    for fill in (float("nan"), 77.0):
        try:
            with numpy.errstate(all="ignore"):
                r = tomtom_py(qs, [torch.from_numpy(t) for t in T], fill, **kw)
            st = "ok"
        except Exception as e:
            r, st = None, "err"
        for pos, qi in enumerate(c["qidx"]):
            evs.append(dict(ev="row", qkey=5000000 + (c["seed"] % 1000) * 100 + (50 if c["rc"] else 0) + qi,
                            dig=row_digest(r, pos) if st == "ok" else 0, threads=0, pos=pos, len=int(qs[pos].shape[1]), st=st, hist=c["qidx"]))
    for pos, qi in enumerate(c["qidx"]):      # the compiled result for the same key
        evs.append(dict(ev="row", qkey=5000000 + (c["seed"] % 1000) * 100 + (50 if c["rc"] else 0) + qi, dig=row_digest(ref, pos), threads=1,
                        pos=pos, len=int(qs[pos].shape[1]), st="ok", hist=c["qidx"]))
    return evs


def run_many(c):
    """one call with more query columns in total than a 16-bit offset can address (annotating thousands of seqlets at once):
    every row must still be the row of its own query"""
    Q, T = pools(c["seed"])
    rng = random.Random(c["seed"] + 5)
    base_q = [rand_pwm(rng, 5) for _ in range(6)]
    kw = dict(reverse_complement=c["rc"], n_target_bins=None, n_score_bins=50)
    solo = tomtom(base_q, [torch.from_numpy(t) for t in T], n_jobs=1, **kw)
    n = c["n"]
    res = tomtom([base_q[i % 6] for i in range(n)], [torch.from_numpy(t) for t in T], n_jobs=c["threads"], **kw)
    evs = []
    for i in list(range(0, 12)) + list(range(n - 600, n, 7)):
        evs.append(dict(ev="row", qkey=7000000 + (c["seed"] % 1000) * 20 + (10 if c["rc"] else 0) + i % 6, dig=row_digest(res, i), threads=c["threads"], pos=i, len=5,
                        st="ok", hist=[n]))
    for i in range(6):          # the solo rows come LAST so that the first digest seen for a key is checked against them as well
        evs.append(dict(ev="row", qkey=7000000 + (c["seed"] % 1000) * 20 + (10 if c["rc"] else 0) + i, dig=row_digest(solo, i), threads=1, pos=i, len=5, st="ok", hist=[6]))
    return evs


def handler(case):
    evs = []
    for c in case["calls"]:
        if c["kind"] == "many":
            evs += run_many(c)
        elif c["kind"] == "hist":
            evs += run_hist(c)
        elif c["kind"] == "annotate":
            evs += run_annotate(c)
        else:
            evs += run_poison(c)
    return {"events": evs}


if __name__ == "__main__":
    base.serve(handler)

"""Exact-arithmetic torch models shared by the workers (mirrored in the TLA+ modules that name them)."""
import torch


class PosCoded(torch.nn.Module):
    """F(x, a, t) = sum_p (x[p]+1)*(p*p+t) + t*(x[1]+1)*(x[L]+1) + a*(t+1)   (p 1-based) -- see spec/ISMOps.tla.
    out='tensor': (n, T);  out='tuple': ((n, T), (n, 2, 2)) where the second output uses t+7; 'triple' adds (n, 3) with t+20.
    Two extra arguments are combined as a + 100*a1 (spec/WrappersOps.tla)."""

    def __init__(self, T, out="tensor"):
        super().__init__()
        self.T, self.out = T, out
        self.calls = 0

    def _f(self, X, a, ts):
        n, A, L = X.shape
        X = X.double()
        sym = (X * torch.arange(1, A + 1, dtype=torch.float64)[None, :, None]).sum(dim=1)     # (n, L) = x[p]+1
        p2 = (torch.arange(1, L + 1, dtype=torch.float64) ** 2)[None, :, None]                # (1, L, 1)
        t = ts[None, None, :].double()
        y = (sym[:, :, None] * (p2 + t)).sum(dim=1) + ts[None, :].double() * (sym[:, 0] * sym[:, -1])[:, None]
        if a is not None:
            y = y + a.double().reshape(n, 1) * (ts[None, :].double() + 1)
        return y

    def forward(self, X, a=None, a1=None):
        self.calls += 1
        if a1 is not None:
            a = a.double().reshape(-1) + 100 * a1.double().reshape(-1)
        y = self._f(X, a, torch.arange(self.T))
        if self.out == "tensor" and getattr(self, "U", 1) == 2:       # (n, T, 2): entry [t][u] = F(x, a, t + 10 u)
            return torch.stack([y, self._f(X, a, torch.arange(self.T) + 10)], dim=-1)
        if self.out == "tensor":
            return y
        y2 = self._f(X, a, torch.arange(4) + 7).reshape(-1, 2, 2)
        if self.out == "tuple":
            return (y, y2)
        if self.out == "list":
            return [y, y2]
        y3 = self._f(X, a, torch.arange(3) + 20)
        return (y, y2, y3)          # "triple"

"""C11 worker: fimo._pwm_to_mapping on enumerated integer matrices (m1) and on realistic PWMs (m3)."""
import math
import random

import numpy

from harness import tlaval
from harness.impl import base
from tangermeme.tools import fimo as F


def table_of(log_pwm, bin_size, dtype=numpy.float64):
    s, t = F._pwm_to_mapping(numpy.ascontiguousarray(log_pwm, dtype=dtype), float(bin_size))
    return int(s), [float(v) for v in t]


def check_table(smallest, table, tail_of, w, lo_att, hi_att):
    """tail_of(score) -> exact count; returns failing clause or ''."""
    tot = 4 ** w
    prev = None
    for j, lt in enumerate(table):
        sc = smallest + j
        c = tail_of(sc)
        if lt != lt:
            return "table entry is NaN (score bin %d)" % sc
        if lt > 1e-6:
            return "table entry above 1 (score bin %d: log2 p = %r)" % (sc, lt)
        p = 2.0 ** lt if lt != float("-inf") else 0.0
        if p > 1.0 + 1e-9:
            return "table entry above 1 (score bin %d: %r)" % (sc, p)
        if c == 0:
            if p != 0.0:
                return "p-value above the highest attainable score is not zero (bin %d: %r)" % (sc, p)
        else:
            want = c / tot
            if abs(p - want) > 1e-9 * max(want, 1e-300):
                return "p-value of score bin %d is %r but the exact tail probability is %d/4^%d = %r" % (sc, p, c, w, want)
        if prev is not None and p > prev * (1 + 1e-12):
            return "table increases at score bin %d" % sc
        prev = p
    if smallest > lo_att:
        return "table starts above the lowest attainable score"
    if smallest + len(table) - 1 < hi_att + 1:
        return "table ends before the highest attainable score"
    return ""


def gen_pwm(rng, like=None):
    w = like[0].shape[1] if like is not None else rng.choice([1, 2, 3, 5, 8, 12, 15, 20, 25, 30])
    cols = []
    for _ in range(w):
        r = rng.random()
        if r < 0.15:
            col = [0.25] * 4
        elif r < 0.3:
            col = [0.0] * 4; col[rng.randrange(4)] = 1.0
        elif r < 0.45:
            a, b = rng.sample(range(4), 2); col = [0.0] * 4; col[a] = 0.5; col[b] = 0.5
        else:
            g = [rng.gammavariate(rng.choice([0.3, 1.0, 3.0]), 1.0) + 1e-12 for _ in range(4)]
            col = [v / sum(g) for v in g]
        cols.append(col)
    pwm = numpy.array(cols, dtype=numpy.float64).T
    if like is not None:
        return pwm, like[1], like[2]
    eps = rng.choice([1e-6, 1e-4, 1e-3, 1e-2, 0.1])
    bin_size = rng.choice([1.0, 0.5, 0.25, 0.1, 0.05, 0.02, 0.01]) if w <= 15 else rng.choice([1.0, 0.5, 0.25, 0.1])
    return pwm, eps, bin_size


def fimo_hits(pwm, eps, bin_size, rng):
    """the p-value column of fimo() for this PWM / eps / bin size: [[score, p], ...], one per score bin"""
    import torch
    w = pwm.shape[1]
    L = 240
    idx = [rng.randrange(4) for _ in range(L)]
    for off in (0, L - w, rng.randrange(0, L - w + 1)):          # the consensus, so that the top bins are reported too
        for j in range(w):
            idx[off + j] = int(numpy.argmax(pwm[:, j]))
    X = numpy.zeros((1, 4, L), dtype=numpy.float32)
    X[0, idx, numpy.arange(L)] = 1
    df = F.fimo({"m": torch.from_numpy(numpy.ascontiguousarray(pwm))}, torch.from_numpy(X), bin_size=bin_size, eps=eps,
                threshold=0.6, reverse_complement=False)[0]
    seen, out = set(), []
    for sc, pv in zip(df["score"].values, df["p-value"].values):
        b = int(float(sc) / bin_size)
        if b not in seen and len(out) < 60:
            seen.add(b)
            out.append([float(sc), float(pv)])
    return out


def handler(case):
    mode = case.get("mode", "m1")
    if mode == "m1":
        st = tlaval.parse_state_body(case["state"])
        M = st["M"]; tail = st["tail"]
        w = len(M[0])
        keys = sorted(tail.keys())
        lo, hi = keys[0], keys[-1]

        def tail_of(s):
            return 4 ** w if s < lo else (0 if s > hi else tail[s])
        logp = numpy.array(M, dtype=numpy.float64)
        try:
            smallest, table = table_of(logp, 1.0)
        except Exception as e:
            return {"v": "_pwm_to_mapping raised %s" % type(e).__name__, "op": "table", "zone": "accept",
                    "ev": dict(op="table", M=M, st="err", y=None), "exp": {}}
        mn = sum(min(M[c][j] for c in range(4)) for j in range(w)); mx = sum(max(M[c][j] for c in range(4)) for j in range(w))
        v = check_table(smallest, table, tail_of, w, mn, mx)
        cls = v.split(" (")[0].split(" is ")[0] if v else ""
        out = {"v": cls, "op": "table", "zone": "accept", "nontrivial": mn != mx}
        if v or case["id"] % 1999 == 0:
            out["ev"] = dict(op="table", M=M, st="ok", y=dict(smallest=smallest, table=[None if t != t else (t if t > -1e300 else "-inf") for t in table]),
                             detail=v, variant=0)
            out["exp"] = dict(tail={str(k): tail[k] for k in keys})
        return out
    if mode == "gen":          # realistic PWMs: return the discretised, shifted matrix for the oracle plus the implementation's table
        rng = random.Random(case["seed"])
        outs = []
        todo = []
        prev = None
        for k in range(case["n"]):
            # every second motif has the width, pseudocount and bin size of the one before it: under the same name in fimo()
            # only the matrix differs
            pwm, eps, bin_size = gen_pwm(rng, like=prev if (k % 2 == 1 and prev is not None and prev[0].shape[1] <= 12) else None)
            prev = (pwm, eps, bin_size)
            todo.append((pwm, eps, bin_size, 0))
            if pwm.shape[1] <= 12 and k % 2 == 0:
                # the same motif again in the same process with another pseudocount, then the first one again (a history of calls)
                eps2 = rng.choice([e for e in (1e-6, 1e-4, 1e-3, 1e-2, 0.1) if e != eps])
                todo += [(pwm, eps2, bin_size, 1), (pwm, eps, bin_size, 2)]
        for ti, (pwm, eps, bin_size, step) in enumerate(todo):
            logp = numpy.log2(pwm + eps) - math.log2(0.25)
            f32 = False
            if ti % 3 == 1:
                # motifs given in single precision (torch's default dtype): the log-odds are float32 values; the table must still be
                # the exact tail of THEIR discretisation, to double accuracy.  Skipped when a quotient sits near a rounding boundary.
                l32 = (numpy.log2(pwm.astype(numpy.float32) + numpy.float32(eps)) - numpy.float32(math.log2(0.25))).astype(numpy.float32)
                q = l32.astype(numpy.float64) / bin_size
                if numpy.abs(numpy.abs(q - numpy.floor(q)) - 0.5).min() > 1e-3:
                    logp, f32 = l32.astype(numpy.float64), True
            I = numpy.round(logp / bin_size).astype(numpy.int64)
            colmin = I.min(axis=0)
            Ms = (I - colmin[None, :]).tolist()
            R = int((I.max(axis=0) - colmin).sum())
            if R > 4000:
                continue
            try:
                smallest, table = table_of(logp, bin_size, numpy.float32 if f32 else numpy.float64)
                st = "ok"
            except Exception as e:
                smallest, table, st = 0, [], "err"
            hits = None
            if st == "ok" and pwm.shape[1] <= 12 and not f32:
                try:
                    hits = fimo_hits(pwm, eps, bin_size, rng)
                except Exception as e:
                    hits = "err %s" % type(e).__name__
            outs.append(dict(M=Ms, R=R, shift=int(colmin.sum()), w=int(I.shape[1]), eps=eps, bin_size=bin_size, st=st, hits=hits, step=step, f32=f32,
                             smallest=smallest, table=[("nan" if t != t else ("-inf" if t == float("-inf") else t)) for t in table],
                             pwm=[[round(v, 6) for v in row] for row in pwm.tolist()]))
        wide = []
        for k in range(case.get("wide", 0)):
            # motifs wider than any exact count fits (w = 64-90): the ends of the table have closed forms -- the lowest attainable
            # bin has tail probability 1, the highest attainable bin has probability (number of sequences attaining every column
            # maximum) / 4^w and must not be -inf, the bin above it is -inf
            w = rng.choice([64, 70, 90])
            pwm, eps, bin_size = gen_pwm(rng, like=(numpy.zeros((4, w)), 1e-4, rng.choice([1.0, 0.5, 0.1])))
            logp = numpy.log2(pwm + eps) - math.log2(0.25)
            I = numpy.round(logp / bin_size).astype(numpy.int64)
            lo_s, hi_s = int(I.min(axis=0).sum()), int(I.max(axis=0).sum())
            ntop = 1
            for j in range(w):
                ntop *= int((I[:, j] == I[:, j].max()).sum())
            try:
                smallest, table = table_of(logp, bin_size)
                top = table[hi_s - smallest] if 0 <= hi_s - smallest < len(table) else float("nan")
                above = table[hi_s + 1 - smallest] if hi_s + 1 - smallest < len(table) else float("-inf")
                bottom = table[lo_s - smallest] if 0 <= lo_s - smallest < len(table) else float("nan")
                v = ""
                if not (abs(bottom) < 1e-6):
                    v = "table is not 1 at the lowest attainable score of a %d-column motif (log2 p = %r)" % (w, bottom)
                elif not (top > float("-inf") and abs(top - (math.log2(ntop) - 2 * w)) < 1e-6):
                    v = "p-value of the highest attainable score of a %d-column motif is %r, exact log2 value %r" % (w, top, math.log2(ntop) - 2 * w)
                elif above != float("-inf"):
                    v = "p-value above the highest attainable score is not zero"
            except Exception as e:
                v = "_pwm_to_mapping raised %s on a %d-column motif" % (type(e).__name__, w)
            wide.append(dict(w=w, bin_size=bin_size, v=v))
        return {"cases": outs, "wide": wide}


if __name__ == "__main__":
    base.serve(handler)

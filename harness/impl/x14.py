"""extras worker of C14: symmetric_tomtom against tomtom(Xs, Xs) (outside the listed properties)."""
import random

import numpy
import torch

from harness.impl import base
from harness.impl.c14 import grid_pwm, to_arr
from tangermeme.tools.tomtom import tomtom
from tangermeme.tools.symmetric_tomtom import symmetric_tomtom


def cells(r):
    n = r.shape[1]
    return [[[int(round(float(r[0, i, j]) * 1e9))] + [int(round(float(r[f, i, j]))) for f in range(1, 5)] for j in range(n)]
            for i in range(n)]


def handler(case):
    rng = random.Random(case["seed"])
    nrng = numpy.random.RandomState(case["seed"])
    evs = []
    for k in range(case["n"]):
        n = rng.randint(2, 5)
        lens = [rng.randint(1, 8) for _ in range(n)]
        if k % 2:
            Xs = [to_arr(grid_pwm(rng, L)) for L in lens]
        else:
            Xs = [numpy.ascontiguousarray(nrng.dirichlet([0.5] * 4, size=L).T) for L in lens]
        kw = dict(n_score_bins=rng.choice([20, 50, 100]), n_target_bins=None if k % 3 else 100, reverse_complement=bool(k % 4 < 2), n_jobs=1)
        ev = dict(op="sym", lens=lens, grid=bool(k % 2), rc=kw["reverse_complement"], bins=kw["n_score_bins"], sym=[], tom=[])
        try:
            tom = tomtom(Xs, Xs, **kw)
        except Exception:
            continue                    # outside tomtom's own domain (e.g. all similarities equal): not an event
        try:
            ev["sym"] = cells(symmetric_tomtom([x.copy() for x in Xs], **kw))
            ev["tom"] = cells(tom)
            ev["st"] = "ok"
        except Exception as e:
            ev["st"] = "err"; ev["kind"] = type(e).__name__
        evs.append(ev)
    return {"events": evs}


if __name__ == "__main__":
    base.serve(handler)

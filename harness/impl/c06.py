"""C06 worker: deep_lift_shap with a recording exact-integer model and a recording reference generator.
   Example ids and (example, shuffle) identities are encoded in the one-hot sequences themselves, so every pairing the
   implementation makes is observable; torch.nn.Tanh.forward is replaced by z*z (integer multipliers => bit-exact float64)."""
import random

import torch

from harness.impl import base
from tangermeme.deep_lift_shap import deep_lift_shap

L = 8
torch.nn.Tanh.forward = lambda self, z: z * z


def enc(e, s):
    """one-hot (4, L): 4 base-4 digits of e, then 4 base-4 digits of s"""
    x = torch.zeros(4, L, dtype=torch.float64)
    for p in range(4):
        x[e % 4, p] = 1
        e //= 4
    for p in range(4, 8):
        x[s % 4, p] = 1
        s //= 4
    return x


def dec(x):
    idx = x.argmax(dim=0).tolist()
    e = sum(idx[p] * 4 ** p for p in range(4))
    s = sum(idx[p] * 4 ** (p - 4) for p in range(4, 8))
    return e, s


SMARK = 255      # the seed field of an EXAMPLE (not a reference) is 255


class Rec(torch.nn.Module):
    def __init__(self, log):
        super().__init__()
        self.log = log
        g = torch.Generator().manual_seed(3)
        self.l1 = torch.nn.Linear(4 * L, 3).double()
        self.act = torch.nn.Tanh()
        self.l2 = torch.nn.Linear(3, 2).double()
        with torch.no_grad():
            for p in self.parameters():
                p.copy_(torch.randint(-2, 3, p.shape, generator=g).double())

    def forward(self, X, a=None):
        n = X.shape[0] // 2
        ids = [dec(X[k]) for k in range(X.shape[0])]
        ev = dict(ev="forward", x=[ids[k][0] for k in range(n)], r=[[ids[k][0], ids[k][1] - self.R] for k in range(n, 2 * n)],
                  a=[], a2=[], xs=[ids[k][1] for k in range(n)], wa=bool(getattr(self, "want_args", False)))
        if a is not None:
            v = [int(t) for t in a.reshape(-1).tolist()]
            ev["a"], ev["a2"] = v[:n], v[n:]
        self.log.append(ev)
        y = self.l2(self.act(self.l1(X.flatten(1))))
        if a is not None:
            y = y + a.reshape(-1, 1)
        return y


def one_call(c, cid):
    log = []
    model = Rec(log)
    model.R = c["R"] if c["refmode"] == "fn" else 0
    ex = c["ex"]
    X = torch.stack([enc(e, SMARK) for e in ex])
    args = (torch.tensor([float(e) for e in ex], dtype=torch.float64),) if c["args"] else None
    model.want_args = bool(c["args"])

    def refs(Xb, n=1, random_state=None, **kw):
        out = []
        for k in range(Xb.shape[0]):
            e, _ = dec(Xb[k])
            log.append(dict(ev="ref", e=e, seed=int(random_state) if random_state is not None else -1))
            out.append(torch.stack([enc(e, (random_state or 0) + j) for j in range(n)]))
        return torch.stack(out)
    references = refs
    if c["refmode"] == "tensor":
        references = torch.stack([torch.stack([enc(e, j) for j in range(c["S"])]) for e in ex])
    evs = [dict(ev="call", id=cid, ex=ex, S=c["S"], B=c["B"], R=model.R, refmode=c["refmode"], key=c["key"])]
    ret = dict(ev="return", dig=[], refs=[])
    d0 = base.tdig(X)
    try:
        r = deep_lift_shap(model, X, args=args, target=c["target"], batch_size=c["B"], references=references, n_shuffles=c["S"],
                           return_references=c["retrefs"], hypothetical=c["hyp"], raw_outputs=c["raw"], device="cpu",
                           random_state=c["R"] if c["refmode"] == "fn" else None)
        if c["retrefs"]:
            r, rr = r
            ret["refs"] = [[[dec(rr[i, j])[0], dec(rr[i, j])[1] - model.R] for j in range(rr.shape[1])] for i in range(rr.shape[0])]
        ret["st"] = "ok"
        ret["dig"] = [base.tdig(r[i]) for i in range(r.shape[0])]
    except Exception as e:
        ret["st"] = "err"; ret["msg"] = "%s: %s" % (type(e).__name__, str(e)[:80])
    ret["same"] = base.tdig(X) == d0
    for e in log:
        e.pop("xs", None)
    return evs + log + [ret]


def obs_call(c, cid):
    """real dinucleotide_shuffle references; per-example digests of attributions and of the references used"""
    from tangermeme.ersatz import dinucleotide_shuffle
    model = Rec([]); model.R = 0
    gen = torch.Generator().manual_seed(77)
    pool = {}
    for e in c["ex"]:
        g = torch.Generator().manual_seed(1000 + e)
        idx = torch.randint(0, 4, (12,), generator=g)
        pool[e] = torch.nn.functional.one_hot(idx, 4).T.double()
    X = torch.stack([pool[e] for e in c["ex"]])
    model.l1 = torch.nn.Linear(4 * 12, 3).double()
    with torch.no_grad():
        model.l1.weight.copy_(torch.randint(-2, 3, model.l1.weight.shape, generator=gen).double()); model.l1.bias.zero_()
    ev = dict(ev="obs", id=cid, ex=c["ex"], key=c["key"], dig=[], rdig=[])
    try:
        a, r = deep_lift_shap(model, X, target=c["target"], batch_size=c["B"], references=dinucleotide_shuffle, n_shuffles=c["S"],
                              return_references=True, hypothetical=c["hyp"], raw_outputs=c["raw"], device="cpu", random_state=c["R"])
        ev["st"] = "ok"
        ev["dig"] = [base.tdig(a[i]) for i in range(a.shape[0])]
        ev["rdig"] = [base.tdig(r[i]) for i in range(r.shape[0])]
    except Exception as e:
        ev["st"] = "err"
    return [ev]


def _interleaved_call_with_overrides():
    """repeated calls must be identical whatever happened in between: here an unrelated call that overrides built-in rules"""
    def plain(module, grad_input, grad_output):
        return grad_input
    m = torch.nn.Sequential(torch.nn.Flatten(), torch.nn.Linear(4 * L, 2).double(), torch.nn.Tanh(), torch.nn.ReLU(), torch.nn.Linear(2, 1).double())
    X = enc(3, 1).unsqueeze(0)
    refs = enc(2, 5).unsqueeze(0).unsqueeze(0)
    deep_lift_shap(m, X, references=refs, additional_nonlinear_ops={torch.nn.Tanh: plain, torch.nn.ReLU: plain}, device="cpu")


def handler(case):
    evs = []
    for k, (cid, c) in enumerate(case["calls"]):
        if k % 7 == 3:
            _interleaved_call_with_overrides()
        evs += obs_call(c, cid) if c.get("obs") else one_call(c, cid)
    return {"events": evs}


if __name__ == "__main__":
    base.serve(handler)

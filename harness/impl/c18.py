"""C18 worker: count_annotations / pairwise_annotations / pairwise_annotations_spacing / kmers."""
import random

import numpy
import pandas
import torch

from harness import tlaval
from harness.impl import base
from tangermeme import annotate, kmers as kmod


def intlist(t):
    a = t.detach().cpu().numpy()
    if not numpy.all(numpy.isfinite(a)) or not numpy.all(a == numpy.round(a)):
        return None
    return a.astype(numpy.int64).tolist()


def run_call(c, variant):
    op = c["op"]
    ev = {k: c[k] for k in ("op", "rows", "E", "N", "D", "sym", "x", "k", "A", "sc")}
    ev["y"] = []
    ev["variant"] = variant
    try:
        if op in ("count", "count0", "count1", "pairwise", "spacing"):
            rows = torch.tensor(c["rows"], dtype=torch.int64).reshape(-1, 4)
            form = variant % 3
            dtype = [torch.int64, torch.int32, torch.float32, torch.uint8, torch.int8][(variant // 3) % 5]
            # counts are kept within the dtype range: at most C(n, 2) pairs -- 253 for n = 23 (uint8), 120 for n = 16 (int8)
            if (dtype == torch.uint8 and len(c["rows"]) > 23) or (dtype == torch.int8 and len(c["rows"]) > 16):
                dtype = torch.int64
            if op.startswith("count"):
                X = rows[:, :2]
                if form == 1:
                    X = (X[:, 0].clone(), X[:, 1].clone())
                elif form == 2:
                    X = (pandas.Series(X[:, 0].numpy()), X[:, 1].numpy().copy())
                shape = None if c["E"] == 0 and c["N"] == 0 else (
                    c["E"] if c["E"] else int(rows[:, 0].max()) + 1, c["N"] if c["N"] else int(rows[:, 1].max()) + 1)
                dim = {"count": None, "count0": 0, "count1": 1}[op]
                y = annotate.count_annotations(X, dtype=dtype, shape=shape, dim=dim)
            elif op == "pairwise":
                X = rows[:, :2]
                if form == 1:
                    X = (X[:, 0].clone(), X[:, 1].clone())
                y = annotate.pairwise_annotations(X, dtype=dtype, symmetric=c["sym"], shape=c["N"] or None)
            else:
                X = rows
                if form == 1:
                    X = pandas.DataFrame(rows.numpy())
                elif form == 2:   # tuple form: (example, bed-like frame [start, end], annotation) -> columns reordered [0,3,1,2]
                    X = (rows[:, 0].clone(), pandas.DataFrame(rows[:, 2:4].numpy()), rows[:, 1].numpy().copy())
                y = annotate.pairwise_annotations_spacing(X, max_distance=c["D"], dtype=dtype, symmetric=c["sym"],
                                                          shape=c["N"] or None)
        else:
            x = base.encode(c["x"], c["A"], [torch.int8, torch.float32, torch.int64][variant % 3]).unsqueeze(0)
            if op == "kmers":
                y = kmod.kmers(x, c["k"])[0]
            else:
                sc = torch.tensor([c["sc"]], dtype=[torch.float32, torch.float64, torch.int64][(variant // 3) % 3])
                d0 = base.tdig(sc)
                y = kmod.kmers(x, c["k"], scores=sc)[0]
                y2 = kmod.kmers(x, c["k"], scores=sc)[0]            # the caller's score tensor is used again
                if base.tdig(sc) != d0 or not bool((y == y2).all()):
                    y = torch.full_like(y, -777.0)                    # scores were modified / the repeated call disagrees
        yy = intlist(y)
        if yy is None:
            ev["st"] = "ok"; ev["y"] = [-999999]
        else:
            ev["st"] = "ok"; ev["y"] = yy
    except Exception as e:
        ev["st"] = "err"
        ev["kind"] = type(e).__name__
    return ev


def gen_call(rng):
    r = rng.random()
    c = dict(op="", rows=[], E=0, N=0, D=0, sym=True, x=[], k=0, A=0, sc=[])
    if r < 0.06:
        # a densely annotated example: one annotation many times (pair counts close to the top of a narrow dtype, while squares of
        # the occurrence count exceed it)
        n = rng.randint(12, 23)
        c["rows"] = [[0, rng.randrange(rng.choice([1, 1, 2])), s, s + 2] for s in range(n)]
        c["op"] = "pairwise"; c["sym"] = rng.random() < 0.8
        return c
    if r < 0.75:
        n = rng.choice([1, 2, 3, 5, 8, 13, 20, 30, 45, 60])
        E = rng.randint(1, 8); N = rng.randint(1, 10)
        span = rng.choice([6, 12, 30])
        rows = []
        anchors = [rng.randint(0, span) for _ in range(4)]
        for _ in range(n):
            s = rng.choice(anchors) if rng.random() < 0.4 else rng.randint(0, span)
            ln = rng.randint(1, 6)
            rows.append([rng.randrange(E), rng.randrange(N), s, s + ln])
        c["rows"] = rows
        c["op"] = rng.choice(["count", "count0", "count1", "pairwise", "spacing", "spacing", "spacing"])
        c["sym"] = rng.random() < 0.6
        c["D"] = rng.choice([1, 2, 3, 5, 8]) if c["op"] == "spacing" else 0
        if rng.random() < 0.4:
            big = rng.random() < 0.8
            me = max(q[0] for q in rows) + 1; mn = max(q[1] for q in rows) + 1
            if c["op"].startswith("count"):
                c["E"] = me + rng.randint(0, 2) if big else max(1, me - 1)
                c["N"] = mn + rng.randint(0, 2) if big else mn
                if not big and c["E"] == me:
                    c["N"] = max(1, mn - 1)
                    if c["N"] == mn:
                        c["E"] = c["N"] = 0
                if c["op"] != "count":
                    c["E"] = me + 1 if c["E"] else 0
                    c["N"] = mn + 1 if c["N"] else 0
            else:
                c["N"] = mn + rng.randint(0, 2) if big else max(1, mn - 1)
                if c["N"] == mn and not big:
                    c["N"] = 0
    else:
        A = rng.randint(2, 4); k = rng.randint(1, 4)
        L = rng.randint(k, 40)
        c["op"] = rng.choice(["kmers", "kmers_scored"])
        c["x"] = [rng.randrange(A) for _ in range(L)]
        c["A"] = A; c["k"] = k
        if c["op"] == "kmers_scored":
            c["sc"] = [rng.randint(-4, 9) for _ in range(L)]
    return c


def handler(case):
    mode = case.get("mode", "m1")
    if mode == "m1":
        st = tlaval.parse_state_body(case["state"])
        c, exp = st["call"], st["exp"]
        ev = run_call(c, case["id"])
        v = ""
        if exp["zone"] == "reject" and ev["st"] != "err":
            v = "accepted a shape smaller than the observed indices"
        elif exp["zone"] == "accept" and ev["st"] != "ok":
            v = "raised on a valid table"
        elif ev["st"] == "ok" and ev["y"] != exp["y"]:
            v = "counts differ from direct enumeration"
        out = {"v": v, "op": c["op"], "zone": exp["zone"], "nontrivial": c["op"].startswith("kmers") or len({r[0] for r in c["rows"]}) < len(c["rows"])}
        if v or case["id"] % 9973 == 0:
            out["ev"] = ev; out["exp"] = exp
        return out
    if mode == "m2":
        rng = random.Random(case["seed"])
        return {"events": [run_call(gen_call(rng), rng.randrange(1000)) for _ in range(case["n"])]}
    if mode == "ev":
        return {"ev": run_call(case["call"], case.get("variant", 0))}


if __name__ == "__main__":
    base.serve(handler)

"""Shared lane of C04 and C05: generate cases, run the implementation, evaluate DeepLift_Oracle, compare under tolerance."""
import random

from . import core, dlgen

TOL = 1e-8


def close(f, rat):
    v = rat[0] / rat[1]
    return abs(f - v) <= TOL * max(1.0, abs(v))


def run_lane(ctx, n_cases, which):
    rng = random.Random(ctx.seed * 7919 + (4 if which == "C04" else 5))
    cases = [dlgen.gen_case(rng, i + 1, allow_maxpool=(which == "C04")) for i in range(n_cases)]
    res = ctx.run_impl("c04", cases, nproc=core.NCPU, timeout_s=3000)
    ocases = []
    for c in cases:
        r = res[c["id"]]
        if r.get("st") != "ok":
            continue
        oc = {k: c[k] for k in ("id", "A", "x", "target", "layers", "hyp")}
        oc["refs"] = r["refs"]
        ocases.append(oc)
    oracle = {o["id"]: o for o in oracle_eval(ctx, ocases)}
    stats = dict(cases=len(cases), impl_errors=0, oracle_skipped=0, pairs=0, mult_tensors=0, attr_tensors=0, with_maxpool=0,
                 patched_classes=set(), native_classes=set(), affine=0, scaled=0)
    for c in cases:
        r = res[c["id"]]
        desc = dict(id=c["id"], A=c["A"], x=c["x"], layers=[_brief(l) for l in c["layers"]], target=c["target"], refmode=c["refmode"],
                    bs=c["bs"], hyp=c["hyp"])
        if r.get("st") != "ok":
            stats["impl_errors"] += 1
            ctx.violation("M3", "deep_lift_shap raised on a supported architecture: %s" % r.get("msg"), dict(mode="case", case=c), cls="raised")
            continue
        o = oracle.get(c["id"])
        if o is None:
            stats["oracle_skipped"] += 1
            continue
        for l in c["layers"]:
            if l["k"] == "act":
                (stats["patched_classes"] if l["g"] in ("sq", "cube") else stats["native_classes"]).add(l["cls"])
        stats["with_maxpool"] += any(l["k"] == "maxpool" for l in c["layers"])
        stats["affine"] += c["affine"]
        stats["coinciding_preactivations"] = stats.get("coinciding_preactivations", 0) + bool(c.get("coincide"))
        stats["scaled"] += c["layers"][0]["ws"][1] > 1 or any(l["ws"][1] > 1 for l in c["layers"])
        A, L = c["A"], len(c["x"])
        fx = o["fx"]
        if not close(r["fx"], fx):
            ctx.suspect("network built by the driver differs from the specified network (case %d: %r vs %r)" % (c["id"], r["fx"], fx))
            continue
        if r["hooks"]:
            ctx.violation("M3", "hooks left on the model after a successful call", dict(mode="case", case=c), cls="hooks")
        nontriv = any(l["k"] in ("act", "maxpool") for l in c["layers"])
        if nontriv:
            ctx.nontrivial(("case", c["id"]))
        # ---- C04: completeness from forward values alone
        sum_attr_ok = True
        frs = [p["fr"] for p in o["per"]]
        for j, p in enumerate(o["per"]):
            stats["pairs"] += 1
            ref = r["refs"][j]
            s = 0.0
            for ch in range(A):
                for q in range(L):
                    s += ((1.0 if c["x"][q] == ch else 0.0) - ref[ch][q][0] / ref[ch][q][1]) * r["mult"][j][ch][q]
            want = (fx[0] * p["fr"][1] - p["fr"][0] * fx[1], fx[1] * p["fr"][1])
            if which == "C04" and not close(s, want):
                ctx.violation("M3", "pair (x, ref %d): sum((x-ref)*multipliers)=%r but model(x)-model(ref)=%s/%s" % (j, s, want[0], want[1]),
                              dict(mode="case", case=c, observed=dict(sum=s)), cls="completeness-pair")
        if which == "C04":
            if r["warn"]:
                ctx.violation("M3", "convergence warning emitted: %s" % r["warn"][0], dict(mode="case", case=c), cls="warning")
            if not c["hyp"]:
                tot = sum(sum(row) for row in r["attr"])
                mean_fr = sum(fr[0] / fr[1] for fr in frs) / len(frs)
                want = fx[0] / fx[1] - mean_fr
                if abs(tot - want) > TOL * max(1.0, abs(want)):
                    ctx.violation("M3", "attributions sum to %r but model(x)-mean model(ref) = %r" % (tot, want),
                                  dict(mode="case", case=c), cls="completeness-attr")
        # ---- C05: multipliers and attributions equal the specified rescale-rule values
        if which == "C05" and o["attr"] != []:
            for j, p in enumerate(o["per"]):
                stats["mult_tensors"] += 1
                bad = [(ch, q) for ch in range(A) for q in range(L) if not close(r["mult"][j][ch][q], p["mult"][ch][q])]
                if bad:
                    ch, q = bad[0]
                    ctx.violation("M3", "multiplier[ref %d][%d][%d] = %r, rescale rule gives %s/%s" % (
                        j, ch, q, r["mult"][j][ch][q], p["mult"][ch][q][0], p["mult"][ch][q][1]),
                        dict(mode="case", case=c), cls="multiplier")
                    break
            stats["attr_tensors"] += 1
            bad = [(ch, q) for ch in range(A) for q in range(L) if not close(r["attr"][ch][q], o["attr"][ch][q])]
            if bad:
                ch, q = bad[0]
                ctx.violation("M3", "%s attribution[%d][%d] = %r, specified %s/%s" % (
                    "hypothetical" if c["hyp"] else "observed-character", ch, q, r["attr"][ch][q], o["attr"][ch][q][0], o["attr"][ch][q][1]),
                    dict(mode="case", case=c), cls="attribution-hyp" if c["hyp"] else "attribution")
        if len(ctx.cov["samples"]) < 3:
            ctx.sample(dict(lane="M3", case=desc, refs=[[["%d/%d" % tuple(v) for v in row] for row in rm] for rm in r["refs"][:1]], specified=dict(fx=fx, fr=frs, mult_ref0_row0=o["per"][0]["mult"][:1] if o["attr"] != [] else "n/a (maxpool)"),
                            observed=dict(fx=r["fx"], mult_ref0_row0=r["mult"][0][:1])))
    stats["patched_classes"] = sorted(stats["patched_classes"]); stats["native_classes"] = sorted(stats["native_classes"])
    ctx.cov["evaluations"] += len(cases)
    ctx.cov["traces_validated_against_impl"] += stats["pairs"]
    ctx.lane("M3", **stats)
    return cases, res, oracle


def _brief(l):
    if l["k"] in ("conv", "linear"):
        return dict(k=l["k"], W=l["W"], b=l["b"], ws=l["ws"], stride=l["stride"], dil=l["dil"], pad=l["pad"])
    if l["k"] == "act":
        return dict(k="act", g=l["g"], cls=l["cls"], slope=l["slope"], lam=l["lam"])
    return dict(k=l["k"], size=l["size"])


def oracle_eval(ctx, ocases, shards=None, depth=0):
    """Evaluate with TLC; only a shard that fails (32-bit overflow aborts TLC) is split further; a single failing case is
    skipped and counted."""
    if not ocases:
        return []
    shards = shards or core.NCPU
    merged, failed, errs = ctx.oracle("DeepLift_Oracle", "DeepLift_Oracle.cfg", ocases, shards=min(shards, len(ocases)),
                                      tag="-%d-%d" % (depth, len(ocases)), tolerant=True)
    for e in errs:
        if "verflow" not in e:
            raise core.Machinery(e)
    for part in failed:
        if len(part) == 1:
            ctx.note("oracle skipped case %s (32-bit overflow in TLC)" % part[0]["id"])
        else:
            merged += oracle_eval(ctx, part, shards=min(4, len(part)), depth=depth + 1)
    return merged

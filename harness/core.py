"""Check context: work directory, TLC lanes, implementation workers, violations, known findings, evidence."""
import hashlib
import json
import os
import shutil
import subprocess
import sys
import time

from . import tlc, tlaval

VERIF = os.path.dirname(os.path.dirname(os.path.abspath(__file__)))
REPO = os.environ.get("VERIF_REPO", "/repo")
PY = "/venv/bin/python"
NCPU = os.cpu_count() or 4


class Machinery(Exception):
    """The checking machinery itself failed (exit 2): never a verdict about the code."""


class Ctx:
    def __init__(self, pid, tier, seed):
        self.pid = pid
        self.tier = tier
        self.seed = seed
        self.t0 = time.time()
        self.work = os.path.join(VERIF, ".work", "%s-%d" % (pid, os.getpid()))
        shutil.rmtree(self.work, ignore_errors=True)
        os.makedirs(self.work)
        os.makedirs(os.path.join(VERIF, ".cache", "numba"), exist_ok=True)
        os.makedirs(os.path.join(VERIF, "replays"), exist_ok=True)
        self.violations = []        # dicts: lane, what, case, replay
        self.known_hits = []        # (finding, violation)
        self.cov = dict(states=0, transitions=0, traces_validated_against_impl=0, evaluations=0,
                        distinct_nontrivial=0, samples=[], lanes={}, tlc_runs=[], negative_controls=[],
                        spec_mutants=[], notes=[])
        self.assumptions = []
        self._nontrivial = set()
        self.findings = load_findings()

    # ------------------------------------------------------------------ bookkeeping
    @property
    def quick(self):
        return self.tier == "quick"

    def note(self, s):
        self.cov["notes"].append(s)
        print("NOTE:", s, flush=True)

    def sample(self, obj, cap=6):
        if len(self.cov["samples"]) < cap:
            self.cov["samples"].append(obj)

    def nontrivial(self, key):
        self._nontrivial.add(key if isinstance(key, (str, int, tuple)) else json.dumps(key, sort_keys=True))

    def lane(self, name, **kw):
        d = self.cov["lanes"].setdefault(name, {})
        for k, v in kw.items():
            if isinstance(v, (int, float)) and not isinstance(v, bool) and isinstance(d.get(k), (int, float)):
                d[k] += v
            else:
                d[k] = v

    # ------------------------------------------------------------------ TLC lanes
    def model_check(self, module, cfg, expect="ok", expect_violated=None, count=True, **kw):
        """Run the design model. expect: 'ok' or a violation kind for spec-level mutants."""
        kw.setdefault("workers", NCPU)
        r = tlc.run_tlc(module, cfg, self.work, **kw)
        rec = dict(module=module, cfg=cfg, **r.summary())
        if r.coverage:
            rec["actions"] = {k: v[1] for k, v in r.coverage.items()}
        self.cov["tlc_runs"].append(rec)
        if r.kind != expect or (expect_violated and r.violated != expect_violated):
            if expect == "ok" and r.kind in ("invariant", "property", "liveness", "deadlock"):
                # the design model itself violates the property: a finding about the design
                raise Machinery("design model %s/%s violates %s:\n%s" % (module, cfg, r.violated or r.kind,
                                                                         tlc.counterexample_text(r)))
            raise Machinery("TLC %s/%s: expected %s got %s (rc=%s)\n%s" % (module, cfg, expect, r.kind, r.rc,
                                                                       r.out[-3000:]))
        if count and expect == "ok":
            self.cov["states"] += r.distinct
            self.cov["transitions"] += r.generated
        return r

    def spec_mutant(self, module, cfg, violated=None, **kw):
        """A configuration with the key mechanism disabled must yield a counter-example (non-vacuity)."""
        kw.setdefault("workers", NCPU)
        r = tlc.run_tlc(module, cfg, self.work, **kw)
        ok = r.kind in ("invariant", "property", "liveness", "deadlock") and (violated is None or r.violated == violated)
        self.cov["spec_mutants"].append(dict(module=module, cfg=cfg, kind=r.kind, violated=r.violated, detected=ok))
        if not ok:
            raise Machinery("spec-level mutant %s/%s was not detected (kind=%s)\n%s" % (module, cfg, r.kind, r.out[-2000:]))
        return r

    def dump_states(self, r, keep=None):
        if not r.dump or not os.path.exists(r.dump):
            raise Machinery("no dump produced: " + r.cmd + "\n" + r.out[-2000:])
        st = tlaval.parse_dump(r.dump, keep=keep)
        os.remove(r.dump)
        return st

    def dump_blocks(self, r, must_contain=None):
        """Raw text blocks of the dumped states (optionally only those containing a marker)."""
        import re
        if not r.dump or not os.path.exists(r.dump):
            raise Machinery("no dump produced: " + r.cmd + "\n" + r.out[-2000:])
        text = open(r.dump).read()
        os.remove(r.dump)
        blocks = re.split(r'^State \d+:.*$', text, flags=re.M)[1:]
        if must_contain:
            blocks = [b for b in blocks if must_contain in b]
        return blocks

    def validate_trace(self, module, cfg, events, extra_env=None, timeout_s=1800, tag=""):
        """events -> ndjson -> trace spec; returns list of rejected (id, clause)."""
        name = "trace-%s%s" % (module, tag)
        path = os.path.join(self.work, name + ".ndjson")
        out = os.path.join(self.work, name + ".out.json")
        tlc.write_ndjson(path, events)
        if os.path.exists(out):
            os.remove(out)
        env = dict(TRACE_FILE=path, OUT_FILE=out)
        if extra_env:
            env.update(extra_env)
        r = tlc.run_tlc(module, cfg, self.work, workers=1, env=env, timeout_s=timeout_s)
        self.cov["tlc_runs"].append(dict(module=module, cfg=cfg, events=len(events), **r.summary()))
        if r.kind != "ok" or not os.path.exists(out):
            raise Machinery("trace validation %s failed to run (kind=%s rc=%s)\n%s" % (module, r.kind, r.rc, r.out[-3000:]))
        res = json.load(open(out))
        if res.get("consumed") != len(events):
            raise Machinery("trace spec %s consumed %s of %d events" % (module, res.get("consumed"), len(events)))
        bad = res.get("bad", [])
        self.cov["traces_validated_against_impl"] += len(events)
        return [(b[0], b[1]) for b in bad]

    def oracle(self, module, cfg, cases, extra_env=None, timeout_s=1800, shards=1, tag="", tolerant=False):
        """M3: cases -> TLC evaluates the specification -> list of result records (sharded over JVMs)."""
        if not cases:
            return []
        shards = max(1, min(shards, len(cases)))
        procs = []
        import threading
        results = [None] * shards
        errs = []

        def one(k):
            part = cases[k::shards]
            path = os.path.join(self.work, "oracle-%s%s-%d.ndjson" % (module, tag, k))
            out = os.path.join(self.work, "oracle-%s%s-%d.out.ndjson" % (module, tag, k))
            tlc.write_ndjson(path, part)
            env = dict(CASES=path, OUT=out)
            if extra_env:
                env.update(extra_env)
            r = tlc.run_tlc(module, cfg, os.path.join(self.work, "o%d" % k), workers=1, env=env, timeout_s=timeout_s)
            if r.kind != "ok" or not os.path.exists(out):
                errs.append("oracle %s shard %d: kind=%s rc=%s\n%s" % (module, k, r.kind, r.rc, r.out[-3000:]))
                return
            results[k] = tlc.read_ndjson(out)
            self.cov["transitions"] += 0

        th = [threading.Thread(target=one, args=(k,)) for k in range(shards)]
        for t in th:
            t.start()
        for t in th:
            t.join()
        if errs and not tolerant:
            raise Machinery("\n".join(errs))
        merged = []
        failed = []
        for k, r in enumerate(results):
            if r is None:
                failed.append(cases[k::shards])
            else:
                merged.extend(r)
        if tolerant:
            self.cov["tlc_runs"].append(dict(module=module, cfg=cfg, oracle_cases=len(cases), shards=shards, failed_shards=len(failed)))
            return merged, failed, errs
        self.cov["tlc_runs"].append(dict(module=module, cfg=cfg, oracle_cases=len(cases), shards=shards))
        return merged

    # ------------------------------------------------------------------ implementation workers
    def run_impl(self, worker, cases, nproc=None, timeout_s=900, env=None, per_case_timeout=120):
        """Run harness.impl.<worker> over cases (each a dict with 'id') in subprocesses importing /repo.
        Returns {id: result}. A worker crash marks the in-flight case as {'st': 'crashed'} and resumes."""
        if not cases:
            return {}
        nproc = nproc or min(NCPU, max(1, len(cases) // 50 + 1))
        nproc = max(1, min(nproc, len(cases)))
        e = dict(os.environ)
        e["PYTHONPATH"] = VERIF + os.pathsep + REPO
        e["NUMBA_CACHE_DIR"] = os.path.join(VERIF, ".cache", "numba")
        e["TANGERMEME_VERIF"] = "1"
        e["PYTHONHASHSEED"] = "0"
        e["OMP_NUM_THREADS"] = "1"
        e["MKL_NUM_THREADS"] = "1"
        e["NUMBA_NUM_THREADS"] = "1"      # workers run side by side; checks that study threading override this via env=
        e["VERIF_SEED"] = str(self.seed)
        if env:
            e.update({k: str(v) for k, v in env.items()})
        shards = [cases[k::nproc] for k in range(nproc)]
        results = {}
        case_limit = int(e.get("VERIF_CASE_TIMEOUT", "120"))
        e["VERIF_CASE_TIMEOUT"] = str(case_limit)
        stall_s = case_limit * 2 + 90          # no new result line for this long: the worker is stuck in native code
        pending = [list(self._spawn(worker, shard, k, 0, e)) + [time.time(), 0] for k, shard in enumerate(shards)]
        deadline = time.time() + timeout_s
        while pending:
            time.sleep(0.2)
            nxt = []
            for item in pending:
                (p, shard, k, gen, inp, outp, last, size) = item
                rc = p.poll()
                stuck = False
                if rc is None:
                    sz = os.path.getsize(outp) if os.path.exists(outp) else 0
                    if sz != size:
                        item[6], item[7] = time.time(), sz
                    if time.time() - item[6] > stall_s or time.time() > deadline:
                        p.kill(); p.wait(); stuck = True
                    else:
                        nxt.append(item)
                        continue
                got = self._collect(outp, results)
                rest = [c for c in shard if c["id"] not in results]
                if rest:
                    err = open(outp + ".err").read()[-1500:] if os.path.exists(outp + ".err") else ""
                    if time.time() > deadline:
                        raise Machinery("worker %s exceeded the lane's time budget (%ds)" % (worker, timeout_s))
                    if gen > 40:
                        raise Machinery("worker %s keeps failing: rc=%s\n%s" % (worker, p.returncode, err))
                    if not stuck and p.returncode is not None and p.returncode > 0 and p.returncode not in (139, 134, 137):
                        # a Python-level failure of the worker itself is machinery, not an observation
                        raise Machinery("worker %s failed rc=%s\n%s" % (worker, p.returncode, err))
                    results[rest[0]["id"]] = {"st": "timeout", "limit_s": stall_s} if stuck else {"st": "crashed", "rc": p.returncode}
                    rest = rest[1:]
                    if rest:
                        nxt.append(list(self._spawn(worker, rest, k, gen + 1, e)) + [time.time(), 0])
            pending = nxt
        return results

    def _spawn(self, worker, shard, k, gen, env):
        inp = os.path.join(self.work, "w-%s-%d-%d.in.json" % (worker, k, gen))
        outp = os.path.join(self.work, "w-%s-%d-%d.out.ndjson" % (worker, k, gen))
        with open(inp, "w") as f:
            json.dump(shard, f)
        errf = open(outp + ".err", "w")
        p = subprocess.Popen([PY, "-m", "harness.impl." + worker, inp, outp], env=env, cwd=VERIF,
                             stdout=errf, stderr=subprocess.STDOUT)
        return (p, shard, k, gen, inp, outp)

    @staticmethod
    def _collect(outp, results):
        n = 0
        if os.path.exists(outp):
            for line in open(outp):
                line = line.strip()
                if not line:
                    continue
                try:
                    r = json.loads(line)
                except ValueError:
                    continue
                results[r["id"]] = r
                n += 1
        return n

    # ------------------------------------------------------------------ verdicts
    def violation(self, lane, what, case, cls=None):
        """Record a violation unless it matches a listed known finding (then it is a KNOWN-FINDING)."""
        v = dict(property=self.pid, lane=lane, what=what, case=case, cls=cls)
        for f in self.findings:
            if f.get("property") == self.pid and f.get("status") == "open" and f.get("match") is not None \
                    and cls is not None and cls == f["match"]:
                self.known_hits.append((f, v))
                return
        self._vcount = getattr(self, "_vcount", {})
        k = self._vcount.get((lane, cls), 0)
        self._vcount[(lane, cls)] = k + 1
        self._nreplay = getattr(self, "_nreplay", 0)
        if k < 3 and self._nreplay < 40:
            self._nreplay += 1
            h = hashlib.sha1(json.dumps([lane, what, case], sort_keys=True, default=str).encode()).hexdigest()[:12]
            path = os.path.join(VERIF, "replays", "%s-%s.json" % (self.pid, h))
            with open(path, "w") as f:
                json.dump(v, f, indent=1, default=str)
            v["replay"] = path
            print("VIOLATION property=%s replay=%s" % (self.pid, path), flush=True)
            print("  lane=%s: %s" % (lane, what), flush=True)
        elif k == 3:
            print("  (further violations of class %r in lane %s are counted, not printed)" % (cls, lane), flush=True)
        if len(self.violations) < 5000:
            self.violations.append(v)
        self.nviol = getattr(self, "nviol", 0) + 1

    def negative_control(self, name, rejected):
        """A corrupted observation that the lane must refuse.  A control that fails is a machinery failure -- unless the run also
        found violations: corrupted copies of executions that already violate the property prove nothing (a corruption may cancel
        a real fault), so the verdict is deferred to finish()."""
        self.cov["negative_controls"].append(dict(name=name, rejected=bool(rejected)))
        if not rejected:
            self.__dict__.setdefault("_failed_controls", []).append(name)

    def suspect(self, msg):
        """A mirror / bookkeeping mismatch that means 'machinery out of date' on a tree that holds the property, but may equally
        be the first symptom of a broken tree: the verdict is deferred to finish() (violations found -> they stand)."""
        self.__dict__.setdefault("_failed_controls", []).append(msg)
        self.note("suspect: " + msg[:300]) if hasattr(self, "note") else None

    # ------------------------------------------------------------------ finish
    def finish(self, rule, exhaustive=False, level="model_checking"):
        failed = self.__dict__.get("_failed_controls", [])
        if failed and not (self.violations or getattr(self, "nviol", 0)):
            raise Machinery(failed[0] if not failed[0].startswith("negative control") and " " in failed[0] and len(failed[0]) > 40
                            else "negative control '%s' was not rejected: the lane cannot tell right from wrong" % failed[0])
        for c in self.cov["negative_controls"]:
            if not c["rejected"]:
                c["undecided_because_violations_exist"] = True
        seen = set()
        for f, v in self.known_hits:
            if f["id"] not in seen:
                seen.add(f["id"])
                print("KNOWN-FINDING: property=%s %s" % (self.pid, f["what"]), flush=True)
        cov = self.cov
        cov["distinct_nontrivial"] = max(cov["distinct_nontrivial"], len(self._nontrivial))
        cov["rule"] = rule
        cov["exhaustive"] = bool(exhaustive)
        cov["known_finding_hits"] = len(self.known_hits)
        if not cov["samples"]:
            cov["samples"] = [{"note": "no sample recorded"}]
        ev = dict(property_id=self.pid, tier=self.tier, seed=self.seed, level=level, coverage=cov,
                  assumptions=self.assumptions, wall_s=round(time.time() - self.t0, 2),
                  violations=getattr(self, "nviol", 0))
        # evidence describes /repo itself; a run against another tree (VERIF_REPO: seeded-change regression) keeps its record apart
        evdir = os.path.join(VERIF, "evidence") if os.path.realpath(REPO) == "/repo" else os.path.join(VERIF, ".work", "evidence-other-tree")
        os.makedirs(evdir, exist_ok=True)
        with open(os.path.join(evdir, self.pid + ".json"), "w") as f:
            json.dump(ev, f, indent=1, default=str)
        shutil.rmtree(self.work, ignore_errors=True)
        return 1 if self.violations else 0


def load_findings():
    p = os.path.join(VERIF, "known_findings.json")
    if not os.path.exists(p):
        return []
    return json.load(open(p)).get("findings", [])


def crc(b):
    import zlib
    return zlib.crc32(b) & 0x7fffffff

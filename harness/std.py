"""The two standard lanes shared by the declarative properties.
   M1: TLC enumerates a call/return model; every 'ret' state is replayed by a worker which compares with the state's exp.
   M2: workers generate and execute random calls; the trace specification decides every event."""
import copy
import threading

from . import core

CALL_KEYS = None


def m1(ctx, module, cfg, worker, extra=None, timeout_s=3000, marker='pc = "ret"', evkeys=None, nproc=None):
    r = ctx.model_check(module, cfg, dump=True, timeout_s=timeout_s)
    blocks = ctx.dump_blocks(r, marker)
    cases = [dict(id=i, state=b, **(extra or {})) for i, b in enumerate(blocks)]
    res = ctx.run_impl(worker, cases, nproc=nproc or core.NCPU, timeout_s=timeout_s)
    classes = {}
    nbad = 0
    carry = []
    for i in range(len(cases)):
        o = res[i]
        if o.get("st") in ("crashed", "timeout"):
            ctx.violation("M1", "the call did not terminate within %ss" % o.get("limit_s") if o.get("st") == "timeout" else
                          "the interpreter crashed (rc=%s) while executing the call" % o.get("rc"),
                          dict(mode="state", state=cases[i]["state"], extra=extra), cls="crash")
            nbad += 1
            continue
        key = "%s/%s" % (o.get("op"), o.get("zone"))
        classes[key] = classes.get(key, 0) + 1
        if o.get("nontrivial"):
            ctx.nontrivial(("m1", i))
        if o["v"]:
            nbad += 1
            ev = o["ev"]
            call = {k: ev[k] for k in (evkeys or ev.keys()) if k in ev}
            ctx.violation("M1", "%s: %s" % (o.get("op"), o["v"]),
                          dict(mode="ev", call=call, variant=ev.get("variant", 0), expected=o.get("exp"),
                               observed=dict(st=ev.get("st"), y=ev.get("y"))),
                          cls="%s/%s" % (o.get("op"), o["v"]))
        elif "ev" in o and "exp" in o:
            ctx.sample(dict(lane="M1", call={k: o["ev"][k] for k in (evkeys or o["ev"].keys()) if k in o["ev"]},
                            specified=o["exp"], observed=dict(st=o["ev"].get("st"), y=o["ev"].get("y"))), cap=4)
        if o.get("carry") is not None:
            carry.append((i, o["carry"]))
    ctx.cov["evaluations"] += len(cases)
    ctx.cov["traces_validated_against_impl"] += len(cases)
    ctx.lane("M1", cases=len(cases), mismatches=nbad, classes=dict(sorted(classes.items())))
    return cases, res, carry


def m2(ctx, worker, trace_module, trace_cfg, n_events, make_negatives, shards=16, jvms=8, extra_events=(),
       evkeys=None, timeout_s=3000, extra_case=None, strip=("kind", "msg")):
    per = max(1, n_events // shards)
    cs = [dict(id=k, mode="m2", seed=ctx.seed * 100003 + k, n=per, **(extra_case or {})) for k in range(shards)]
    # one case = one shard of many calls: the per-case watchdog must allow for the whole shard on a busy machine (a shard of the
    # quick tier normally takes well under a minute); a call that really never returns is still reported, only later
    out = ctx.run_impl(worker, cs, nproc=shards, timeout_s=max(timeout_s, 3000 if ctx.quick else 9000),
                       env=dict(VERIF_CASE_TIMEOUT=900 if ctx.quick else 3000))
    events = []
    nid = 0
    for e in extra_events:
        e = dict(e); e["id"] = nid; nid += 1
        events.append(e)
    for k in range(shards):
        if out[k].get("st") in ("crashed", "timeout"):
            ctx.violation("M2", "a call made by the random driver %s (shard %d, seed %d)" % (
                "did not terminate" if out[k]["st"] == "timeout" else "crashed the interpreter", k, cs[k]["seed"]),
                dict(mode="shard", shard=cs[k]), cls=out[k]["st"])
            continue
        for e in out[k]["events"]:
            e = dict(e); e["id"] = nid; nid += 1
            events.append(e)
    for e in events:
        for s in strip:
            e.pop(s, None)
    ctx.cov["evaluations"] += len(events)
    neg = make_negatives(events)
    for j, c in enumerate(neg):
        c["id"] = -(j + 1)
    jvms = max(1, min(jvms, len(events) // 50 + 1))
    chunks = [events[k::jvms] for k in range(jvms)]
    chunks[0] = list(neg) + chunks[0]
    bads = [None] * jvms
    errs = []

    def go(k):
        try:
            bads[k] = ctx.validate_trace(trace_module, trace_cfg, chunks[k], tag="-%d" % k, timeout_s=timeout_s)
        except Exception as ex:   # noqa
            errs.append(ex)
    th = [threading.Thread(target=go, args=(k,)) for k in range(jvms)]
    [t.start() for t in th]
    [t.join() for t in th]
    if errs:
        raise errs[0]
    ctx.cov["traces_validated_against_impl"] -= len(neg)
    bad = [b for bb in bads for b in bb]
    negids = {b[0] for b in bad if b[0] < 0}
    byid = {e["id"]: e for e in events}
    nrej = 0
    for (i, clause) in bad:
        if i < 0:
            continue
        nrej += 1
        e = byid[i]
        call = {k: e[k] for k in (evkeys or e.keys()) if k in e and k not in ("id", "st", "y", "variant")}
        ctx.violation("M2", "%s: %s" % (e.get("op"), clause),
                      dict(mode="ev", call=call, variant=e.get("variant", 0), observed=dict(st=e.get("st"), y=e.get("y"))),
                      cls="%s/%s" % (e.get("op"), clause))
    # judged AFTER the recorded events: corrupted copies of executions that already violate the property prove nothing
    ctx.negative_control("%d corrupted events must be rejected by %s" % (len(neg), trace_module),
                         len(neg) >= 1 and negids == {c["id"] for c in neg})
    ctx.lane("M2", events=len(events), rejected=nrej)
    for e in events[len(extra_events):len(extra_events) + 2]:
        ctx.sample(dict(lane="M2", event={k: v for k, v in e.items() if k != "id"}), cap=6)
    return events, bad


def replay_ev(ctx, v, worker, trace_module, trace_cfg):
    case = v["case"]
    if case.get("mode") != "ev":
        print("replay: this replay file is not a single call; re-run the check instead")
        return 2
    res = ctx.run_impl(worker, [dict(id=0, mode="ev", call=case["call"], variant=case.get("variant", 0))], nproc=1)
    e = dict(res[0]["ev"]); e["id"] = 0
    for s in ("kind", "msg"):
        e.pop(s, None)
    bad = ctx.validate_trace(trace_module, trace_cfg, [e])
    print("observed:", dict(st=e.get("st"), y=e.get("y")))
    if bad:
        print("VIOLATION property=%s replay=%s clause=%s" % (ctx.pid, "(replayed)", bad[0][1]))
        return 1
    print("replay: event accepted by", trace_module)
    return 0

"""Tolerance comparison of an implementation table with TLC's exact tail counts (the only numeric act of the harness)."""


def compare_tables(c, o):
    w = c["w"]
    tot = 4 ** w
    counts = [hi * (2 ** 30) + lo for (hi, lo) in o["tail"]]        # Tail(s') for shifted scores s' = 0..R
    R = c["R"]

    def tail_of(score):
        s = score - c["shift"]
        return tot if s < 0 else (0 if s > R else counts[s])
    prev = None
    for j, lt in enumerate(c["table"]):
        sc = c["smallest"] + j
        cnt = tail_of(sc)
        if lt == "nan":
            return "table entry is NaN (score bin %d)" % sc
        if lt != "-inf" and lt > 1e-6:
            return "table entry above 1 (score bin %d: log2 p = %r)" % (sc, lt)
        p = 0.0 if lt == "-inf" else 2.0 ** lt
        if p > 1.0 + 1e-9:
            return "table entry above 1 (score bin %d: %r)" % (sc, p)
        if cnt == 0:
            if p != 0.0:
                return "p-value above the highest attainable score is not zero (bin %d: %r)" % (sc, p)
        else:
            want = cnt / tot
            if abs(p - want) > 1e-9 * want:
                return "p-value of a score bin is not the exact tail probability (bin %d: %r vs %d/4^%d)" % (sc, p, cnt, w)
        if prev is not None and p > prev * (1 + 1e-12):
            return "table increases (score bin %d)" % sc
        prev = p
    if c["smallest"] > c["shift"]:
        return "table starts above the lowest attainable score"
    if c["smallest"] + len(c["table"]) - 1 < c["shift"] + R + 1:
        return "table ends before the highest attainable score"
    return ""


def compare_hits(c, o):
    """the p-value column of fimo(): every reported (score, p) carries the exact tail probability of the score's bin
    int(score / bin_size) (either neighbouring bin when the quotient is within 1e-9 of an integer)."""
    if c.get("hits") is None:
        return ""
    if isinstance(c["hits"], str):
        return "fimo() raised on a valid motif (%s)" % c["hits"]
    w = c["w"]
    tot = 4 ** w
    counts = [hi * (2 ** 30) + lo for (hi, lo) in o["tail"]]
    R = c["R"]

    def tail_of(score):
        s = score - c["shift"]
        return tot if s < 0 else (0 if s > R else counts[s])
    for sc, p in c["hits"]:
        q = sc / c["bin_size"]
        cands = {int(q), int(q - 1e-9 * max(1.0, abs(q))), int(q + 1e-9 * max(1.0, abs(q)))}
        if not any(abs(p - tail_of(b) / tot) <= 1e-9 * (tail_of(b) / tot) for b in cands):
            return "fimo() p-value of a hit is not the exact tail probability of its score bin (score %r bin %d: %r vs %d/4^%d)" % (
                sc, int(q), p, tail_of(int(q)), w)
    return ""

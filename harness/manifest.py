"""Regenerates /verif/MANIFEST.json from the table below: python -m harness.manifest"""
import json
import os

VERIF = os.path.dirname(os.path.dirname(os.path.abspath(__file__)))

# pid -> (spec modules, technique, level text, level note, design ref)
CHECKS = {
    "C01": (["ErsatzOps", "Ersatz", "Ersatz_Trace"],
            "TLA+ spec (Ersatz.tla) model-checked with TLC; every state of the bounded call/return model replayed into "
            "tangermeme.ersatz (spec->code), random calls validated against Ersatz_Trace (code->spec)",
            "TLC enumerates the complete small scope of calls (all sequences L<=5, motifs m<=3, starts in [-3,L+3], batches, spans, "
            "spacings) with the specified zone and result of each; all of them are executed against the working tree and compared; "
            "thousands of larger random calls are decided by the trace specification; a corrupted event must be rejected in every run.",
            "Trusted: TLC, the abstraction one-hot tensor -> symbol sequence (harness/impl/base.py), CRC32 digests for 'not modified'. "
            "Zones 'either' (insert L-m<p<=L, empty delete span, randomize end=L) accept both outcomes.",
            "DESIGN.md §5 C01"),
    "C18": (["CountingOps", "Counting", "Counting_Trace"],
            "TLA+ spec (CountingOps/Counting) model-checked with TLC; all enumerated tables and sequences replayed into "
            "tangermeme.annotate / tangermeme.kmers; random tables validated against Counting_Trace",
            "TLC enumerates every annotation table with <=3 rows over a small grid of examples, annotations and spans (all overlap "
            "configurations incl. gap = max_distance) and every short sequence for k-mers, with counts defined as set cardinalities; "
            "each is executed and compared; larger random tables in all input forms are decided by the trace specification.",
            "Trusted: TLC; integer-valued results are compared for equality; counts stay inside the dtype range.",
            "DESIGN.md §5 C18"),
    "C15": (["CodecOps", "Codec", "Unchunk", "Codec_Trace", "UtilsExtraOps", "UtilsExtra_Trace"],
            "TLA+ spec (CodecOps/Codec) model-checked with TLC incl. the algebraic laws (round trip, involution, form agreement, "
            "chunk/unchunk covering) as invariants; all enumerated calls replayed into tangermeme.utils; random calls validated "
            "against Codec_Trace",
            "TLC enumerates all short strings/alphabets/ignore sets, all involutive complement maps, and all (size, overlap, chunk "
            "count, remainder) combinations incl. exactly one chunk; each is executed and compared with the specified conversion.",
            "Trusted: TLC; chunking is observed through position-coded tensors; tensors abstracted to symbol sequences.",
            "DESIGN.md §5 C15"),
    "C10": (["VariantOps", "Variant", "DeletionMask", "Variant_Trace"],
            "TLA+ spec (VariantOps/Variant) model-checked with TLC (same-loss, no-leak, length laws as invariants); all enumerated "
            "variant lists replayed into tangermeme.variant_effect through an identity func/model; random lists validated against "
            "Variant_Trace",
            "TLC enumerates every deletion subset (<=3 per example, incl. the trimmed edge), insertion set and substitution set on "
            "short batches with the string-level edited sequences as the specified result; each is executed and the tensors reaching "
            "func are compared.",
            "Trusted: TLC; identity func/model exposes the tensors passed to func; negative indices out of scope; conflicting "
            "substitutions unspecified ('any'); two insertions at one coordinate may appear in either order.",
            "DESIGN.md §5 C10"),
    "C09": (["ISMOps", "ISM", "IndexMaps", "ISM_Trace"],
            "TLA+ spec (ISMOps/ISM) model-checked with TLC (self-mutant and centring laws as invariants); every enumerated "
            "window/batch-size/output-form replayed into saturation_mutagenesis on an exact-integer model; random calls validated "
            "against ISM_Trace",
            "TLC enumerates every (start, end) window incl. negative ends, batch sizes, tensor/tuple outputs, target selections and "
            "hypothetical flags on short sequences, with y0, y_hat and the scaled attribution specified from the definition; each is "
            "executed and compared for equality (exact integers in float64).",
            "Trusted: TLC; the PosCoded model is defined twice (TLA+ and torch) and cross-checked through y0; attribution compared "
            "after scaling by A*|targets|.",
            "DESIGN.md §5 C09"),
    "C08": (["WrappersOps", "Wrappers", "IndexMaps", "Wrappers_Trace"],
            "TLA+ spec (WrappersOps/Wrappers, re-using ErsatzOps and ISMOps) model-checked with TLC; every enumerated configuration "
            "replayed into marginalize/ablate/space/*_annotations/apply_pairwise/apply_product with a fingerprint model; "
            "shuffle-based wrappers and random configurations validated against Wrappers_Trace",
            "TLC enumerates configurations (examples, outputs, args, shuffles, annotations != outputs, spacing grids, product sizes, "
            "batch sizes) with the value each output index must hold by its denotation; each is executed with an exact-integer "
            "fingerprint model whose outputs encode sequence and args, and compared index by index.",
            "Trusted: TLC; the fingerprint model separates all inputs in scope (ProductSeparates invariant); shuffles are logged "
            "facts checked to be shuffles of the region; func = predict.",
            "DESIGN.md §5 C08"),
    "C02": (["DinucWalk", "ShuffleOps", "Shuffle_Trace"],
            "step-shaped TLA+ model of the Euler walk (DinucWalk.tla) model-checked with TLC over every permutation outcome "
            "(safety + liveness); every behaviour replayed into _fast_shuffle.py_func with a scripted permutation source; public "
            "calls validated against Shuffle_Trace (relations + determinism memo)",
            "TLC visits every reachable state of the walk for every sequence of the scope and every outcome of the internal "
            "permutations (enumerated, not sampled): never stranded, every transition consumed, dinucleotide multiset preserved, "
            "terminates; the KeepLast=FALSE mutant must produce the stranded counter-example. Each complete behaviour is one "
            "implementation test; recorded public calls (all one-hot dtypes incl. half precision, regions of several hundred positions, "
            "seeds at the 32-bit edges and as numpy integers) are checked for composition, flanks, validity, digests and determinism, "
            "also between two interpreter processes with different hash salts.",
            "Trusted: TLC; py_func is the body numba compiles (compiled path covered by the trace lane); regions for "
            "dinucleotide_shuffle are 'either' unless n=1 and length >= 3.",
            "DESIGN.md §5 C02"),
    "C03": (["Batching", "Batching_Trace"],
            "step-shaped TLA+ model of predict's loop (Batching.tla) model-checked with TLC (safety + liveness); recorded calls "
            "of the real predict with a recording model are replayed through the model's actions by Batching_Trace",
            "TLC checks every (n, batch size, args) of the scope: windows partition 0..n-1 in order, eval/no-grad inside the loop, "
            "mis-sized args rejected, termination. Every recorded forward call of the implementation must be the model's next Batch "
            "step (same window for X and every arg, eval, no grad) and the return must be its Concat; design invariants are "
            "evaluated at every step of every recorded execution.",
            "Trusted: TLC; the recording model's log (row ids decoded from the input it receives).",
            "DESIGN.md §5 C03"),
    "C07": (["ModelLife", "ModelLifeMC", "ModelLife_Trace"],
            "step-shaped TLA+ model of the hook/mode/parameter life-cycle with crash points over call histories (ModelLife.tla) "
            "model-checked with TLC (safety + liveness, as-found handler coverage as spec-level mutant); every crash point and "
            "TLC-explored histories injected into the real functions; recorded calls pushed through the model's actions by "
            "ModelLife_Trace",
            "TLC enumerates every (function, run, step kind, batch) crash point and all histories of two (quick) / three (thorough) "
            "calls and checks that every exit leaves no hooks and unchanged parameters. Each crash point is one fault-injection test "
            "against the real code (k-th forward, k-th reference call, k-th backward rule, failing registration, short args, int X, "
            "bad target, failing projection); histories run on a shared model and on fresh copies, and hook tables, state_dict bytes, "
            "probe outputs/gradients and results are compared after every call.",
            "Trusted: TLC; crash points that cannot be injected through the API (accumulate; slice/reqgrad/delta beyond the first "
            "batch of the first run) are reported as unrealisable; PROGRAMS table in the worker is verified by a dry run.",
            "DESIGN.md §5 C07"),
    "C06": (["DLSBook", "DLSBook_Trace"],
            "step-shaped TLA+ model of deep_lift_shap's pair/batch/queue book-keeping (DLSBook.tla) model-checked with TLC "
            "(safety + liveness); recorded calls pushed through its actions by DLSBook_Trace, with a memo state variable for "
            "bit-identical results across batchings",
            "TLC checks every (N, S, B): blocks emitted from exactly their own pairs, in order, seeds random_state+j, termination. "
            "Every reference call and forward of the real function (recording exact-integer model, identities encoded in the "
            "sequences) must be the model's next step, and the per-example result digest must equal the first one seen for that "
            "(example, seed/flags) under every batch size, subset and permutation.",
            "Trusted: TLC; Tanh.forward patched to z*z in the worker for exact integer multipliers; CRC32 digests.",
            "DESIGN.md §5 C06"),
    "C04": (["Rat", "DeepLiftOps", "DeepLift", "DeepLiftMC", "DeepLift_Oracle"],
            "TLA+ spec of exact network semantics and the DeepLIFT rescale rule over rationals (DeepLiftOps); design model "
            "DeepLift.tla model-checked with TLC (SumToDelta at every layer of an exhaustive tiny family); TLC as exact oracle "
            "for random networks run through the real deep_lift_shap, compared under a float tolerance",
            "TLC proves, by exhaustive enumeration of a tiny network family, that the specified rule satisfies summation-to-delta "
            "at every layer; for seeded random architectures of the stated generator TLC computes the exact forward values "
            "model(x), model(ref) (asserting SumToDelta again per case) and the implementation's per-pair and per-example sums must "
            "match them; no convergence warning may be emitted.",
            "Trusted: TLC; float64 vs exact rationals at 1e-8 relative; transcendental activations replaced by exact polynomial "
            "forwards (their float rounding is outside TLA+); max-pool windows non-overlapping.",
            "DESIGN.md §5 C04/C05"),
    "C05": (["Rat", "DeepLiftOps", "DeepLift", "DeepLiftMC", "DeepLift_Oracle"],
            "TLA+ spec of the rescale rule over rationals (DeepLiftOps) used as an independent layer-by-layer evaluation; design "
            "model DeepLift.tla model-checked (SumToDelta, AffineClosedForm); multipliers and attributions of the real "
            "deep_lift_shap compared with TLC's exact values",
            "For seeded random architectures TLC evaluates the multipliers (transpose propagation, (g(x)-g(r))/(x-r) or g' where "
            "inputs coincide), the hypothetical projection and the reference average in exact rationals; every multiplier and "
            "attribution entry returned by deep_lift_shap (raw, processed, hypothetical) must equal them; the affine closed form is "
            "an invariant of the design model and a sub-family of the generator.",
            "Trusted: TLC; 1e-8 relative tolerance; |delta_in| is 0 or >= 2^-16 (ambiguous band excluded as the property states); "
            "every supported activation class is exercised, the transcendental ones through an exact polynomial forward.",
            "DESIGN.md §5 C04/C05"),
    "C20": (["Greedy", "GreedyMC"],
            "step-shaped TLA+ model of the greedy loop with a brute-force candidate set and tie branching (Greedy.tla) model-checked "
            "with TLC (safety, action property, liveness); the leaves of the model per problem are the admissible results against "
            "which the real greedy_substitution is replayed",
            "TLC explores, for every problem of the family, every tie-resolution of the loop that always takes a best (motif, "
            "position) among all fitting positions, checks never-worse / monotone / only-in-windows / iteration bound / termination "
            "(max_iter = -1 included), and yields the set of admissible final sequences; the implementation's result on the mirrored "
            "exact-integer model must be one of them with the same loss.",
            "Trusted: TLC; the linear read-out model is defined in TLA+ and mirrored in torch (cross-checked through the final loss).",
            "DESIGN.md §5 C20"),
    "C16": (["Meme", "LociOps", "Loci", "Loci_Trace", "Vcf_Trace"],
            "step-shaped TLA+ model of the MEME parser over all valid layouts (Meme.tla; as-found commit rule as spec-level "
            "mutant) and declarative window/filter/interleave spec (LociOps) model-checked with TLC; every layout rendered to a "
            "real file and every enumerated locus call executed with in-memory and file inputs, explained by Loci_Trace",
            "TLC generates every valid MEME layout of the scope and checks that the line-by-line parser commits every motif in "
            "order; each layout is rendered (LF/CRLF, trailing spaces, final newline or not) and read by read_meme. For "
            "extract_loci TLC enumerates loci at every offset incl. both chromosome ends, windows, jitter, filters, caps and "
            "interleaved sets; returned bases and position-coded signal values must be exactly the specified windows, in order, "
            "identically for arrays and FASTA/bigWig/BED files.",
            "Trusted: TLC; pyfaidx/pyBigWig file round trip; windows touching a chromosome end are 'either'; excluded chromosomes "
            "are removed before the round-robin.",
            "DESIGN.md §5 C16"),
    "C17": (["MatchOps", "Match", "Match_Trace"],
            "step-shaped TLA+ model of the GC-bin allocation loop (Match.tla; as-found guard as spec-level mutant) model-checked "
            "with TLC (safety at every step, liveness); every histogram of the model realised as a synthetic genome and the real "
            "extract_matching_loci decided by Match_Trace with the same predicates",
            "TLC explores the allocation for every (loci, background) histogram of the scope and checks conservation, the per-bin "
            "bounds at every step, the four allocation predicates at termination and termination. Each histogram becomes a genome "
            "(designed GC / N / signal tiles, masked and decoy tiles, both window relations) on which the implementation's returned "
            "loci must be aligned, unique, unmasked, N- and signal-eligible, satisfy the allocation predicates and not depend on "
            "n_jobs.",
            "Trusted: TLC; tile facts computed by the driver from the generated genome (1-4 chromosomes, n_jobs 1-3); pyfaidx / pyBigWig; in_window = 8.",
            "DESIGN.md §5 C17"),
    "C19": (["Seqlets", "SeqletsMC", "SeqletOps", "Seqlet_Trace"],
            "step-shaped TLA+ model of the iterative arg-max/suppress extractor (Seqlets.tla) model-checked with TLC (safety, "
            "progress, liveness) with tie branching; every track replayed into _iterative_extract_seqlets; rows returned by "
            "recursive_seqlets / tfmodisco_seqlets decided by Seqlet_Trace",
            "TLC checks, for every short track, that seqlet starts are never closer than the suppression radius, that only "
            "candidate positions are chosen and that the loop terminates; the model's leaves are the admissible outputs of the real "
            "extractor. Every row of both public callers on random integer-valued tracks is checked for span, length bounds before "
            "flanks, exact attribution sum, p-value threshold and order, suppression distance, and an unmodified input.",
            "Trusted: TLC; integer tracks (exact sums); p-values abstracted to threshold test and rank; raises are counted, not judged.",
            "DESIGN.md §5 C19"),
    "C11": (["FimoOps", "FimoTable", "FimoTableMC", "FimoTable_Oracle"],
            "step-shaped TLA+ model of the column-by-column score distribution (FimoTable.tla) model-checked with TLC for every "
            "small integer score matrix (mass, support, tail laws, equality with brute-force enumeration); every matrix replayed "
            "into fimo._pwm_to_mapping; exact tail counts for realistic PWMs from TLC in two-limb arithmetic",
            "TLC proves on the complete small scope that the specified dynamic programme equals the enumeration of all 4^w "
            "sequences and satisfies the tail laws; each matrix is run through the implementation and compared bin by bin. For "
            "realistic PWMs up to width 30 TLC computes exact integer tail counts (asserting total mass and monotonicity) against "
            "which 2**table[b]*4^w is compared, and so is the p-value column of fimo() hits (widths <= 12), including the same motif "
            "scanned again in the same process with another pseudocount.",
            "Trusted: TLC; 1e-9 relative tolerance; this sandbox's numba/LLVM build only.",
            "DESIGN.md §5 C11"),
    "C12": (["FimoOps", "FimoScan", "FimoLoop", "FimoScan_Trace"],
            "declarative TLA+ definition of the FIMO hit set (FimoOps) model-checked with TLC on the exhaustive small scope "
            "(MirrorLaw, EveryWindow, FieldsOK, DP = enumeration); every case replayed into fimo() in the exact-arithmetic lane; "
            "random scans validated against FimoScan_Trace",
            "TLC enumerates every exact-lane motif x every short sequence x thresholds with the hit set defined window by window "
            "(every start 0..L-w, both strands, score, tail count) and checks the reverse-complement mirror law; the implementation "
            "must report exactly these hits with correct fields, identically for tensor/FASTA input, dim=0/1, return_counts and 1, 2 "
            "and all threads; larger planted/random scans are decided by the trace specification.",
            "Trusted: TLC; exact lane (log-odds integers, eps=0) so float comparisons inside fimo are exact; thresholds are non-ties or, "
            "for ties, the event records on which side the float table entry fell and the specification follows it; "
            "p-values compared as integer tail counts.",
            "DESIGN.md §5 C12"),
    "C13": (["TomtomSched", "TomtomSchedMC", "Tomtom_Trace"],
            "step-shaped TLA+ model of threads x per-thread scratch regions x query histories (TomtomSched.tla) model-checked with "
            "TLC over every assignment and interleaving (NoStaleRead, NoSharing, liveness; three spec-level mutants); the compiled "
            "tomtom run under many thread counts / batch compositions / orders and validated by Tomtom_Trace (memo state, Select); "
            "thorough tier: poison lane through the pure-Python bodies",
            "TLC explores every way queries of different lengths can be assigned to and interleaved on the threads and shows that "
            "every scratch region read was written for the current query. On the implementation every query's row must be "
            "bit-identical to its solo single-thread run under 1..8 threads, permutations, subsets, duplicates, short-after-long "
            "orders, reverse complement and column hashing; n_nearest (target sets with duplicated motifs, i.e. exact ties at the cut) "
            "must return the n smallest p-values ascending with matching fields; the poison lane fills all scratch with NaN / 77 and requires unchanged results.",
            "Trusted: TLC; numba's scheduler cannot be forced (the model covers every assignment); CRC32 of float64 bytes.",
            "DESIGN.md §5 C13"),
    "C14": (["Rat", "TomtomScoreOps", "TomtomScore", "TomtomNull", "TomtomScore_Oracle", "SymIndex", "SymTomtom_Trace"],
            "declarative TLA+ definition of TOMTOM complete scores, admissible alignments and the exact null p-value "
            "(TomtomScoreOps) model-checked with TLC on all small similarity matrices (CdfMonotone, NoDrop, PValueRange, Alignment; "
            "as-found zero-bin drop as spec-level mutant); TLC as exact oracle for random query/target sets run through the real "
            "tomtom with the code's own integerised similarities",
            "TLC computes from the definition (brute-force enumeration of independent column draws, not the code's convolution / "
            "max recursion) the best complete score, the set of alignments attaining it, the exact p-value per strand and the "
            "merge, and checks the integeriser's monotonicity against exact squared distances; the implementation's score must be "
            "equal, its (offset, overlap, strand) admissible and its p-value within 1e-9; self-comparison and reverse-complement "
            "invariance are asserted; n_score_bins 10-200 incl. full-range cases; where column hashing is injective and the "
            "integerisation robust, the hashed / reordered / reverse-complemented target sets must reproduce the validated result.",
            "Trusted: TLC; G and u taken from the code's integeriser (as the property allows); exact p-values for lengths <= 3 and "
            "<= 7 pooled columns; the strand-merge square is applied in floating point to TLC's exact smaller p-value.",
            "DESIGN.md §5 C14"),
}

ALL = ["C%02d" % i for i in range(1, 21)]


def main():
    checks = []
    for pid in ALL:
        if pid not in CHECKS:
            continue
        mods, tech, text, note, ref = CHECKS[pid]
        checks.append(dict(
            property_id=pid,
            quick_cmd="./check %s --tier quick" % pid,
            thorough_cmd="./check %s --tier thorough" % pid,
            evidence_file="evidence/%s.json" % pid,
            replay_cmd_template="./check %s --replay {path}" % pid,
            engine="tlc",
            level_claimed=dict(category="model_checking", text=text, design_ref=ref),
            level_note=note,
            technique=tech))
    na = [dict(property_id=p, reason="check under construction in this session (planned per DESIGN.md §5); not yet claimed")
          for p in ALL if p not in CHECKS]
    m = dict(
        version=1,
        setup_cmd="./check --setup",
        hooks=dict(guard="TANGERMEME_VERIF",
                   enable="no source hooks: checks import tangermeme from /repo's working tree (PYTHONPATH=/repo) in fresh "
                          "subprocesses with TANGERMEME_VERIF=1; recorders are monkeypatches installed by the harness",
                   baseline_off_cmd="cd /repo && /venv/bin/python -m pytest -ra -q -p no:cacheprovider --timeout=900 "
                                    "--continue-on-collection-errors",
                   source_commits=[], add_only=True),
        engines=[dict(name="tlc", path="/opt/veriftools/tla/tla2tools.jar", serves_properties=[c["property_id"] for c in checks],
                      kind_free_text="TLC 1.8.0 explicit-state model checker: design models (spec/*_MC*.cfg), trace validation "
                                     "(spec/*_Trace.tla) and exact oracle evaluation; driven by harness/*.py")],
        checks=checks,
        notes="See DESIGN.md. Exit codes: 0 held, 1 violation (VIOLATION lines), 2 machinery failure. known_findings.json lists "
              "fixed/open findings.",
        not_applicable=na)
    with open(os.path.join(VERIF, "MANIFEST.json"), "w") as f:
        json.dump(m, f, indent=1)
    print("MANIFEST.json: %d checks, %d not_applicable" % (len(checks), len(na)))


if __name__ == "__main__":
    main()

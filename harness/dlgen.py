"""Seeded generator of network / input cases for the C04 / C05 exact-oracle lane (shapes always valid)."""
import random

NATIVE = ["relu", "relu6", "leaky", "shrink"]
PATCHED = ["ELU", "Tanh", "Sigmoid", "GELU", "SiLU", "Softplus", "Mish", "SELU", "CELU", "LogSigmoid", "Custom"]
# "Custom": a user-defined activation class registered through additional_nonlinear_ops (rule = the library's _nonlinear)
NATIVE_CLS = {"relu": ["ReLU"], "relu6": ["ReLU6"], "leaky": ["LeakyReLU", "PReLU", "RReLU"], "shrink": ["Softshrink"]}


def rand_w(rng, shape, lo=-2, hi=2):
    def rec(sh):
        if len(sh) == 1:
            return [rng.randint(lo, hi) for _ in range(sh[0])]
        return [rec(sh[1:]) for _ in range(sh[0])]
    w = rec(shape)
    return w


_RR = [0, 0]


def act_layer(rng, allow_poly):
    # classes are taken round-robin so that EVERY supported activation class occurs in every run (a class missing from the
    # rule table must not slip through because the sampler happened not to draw it)
    if allow_poly and rng.random() < 0.45:
        _RR[0] += 1
        return dict(k="act", g=rng.choice(["sq", "cube"]), cls=PATCHED[_RR[0] % len(PATCHED)], slope=[0, 1], lam=0)
    _RR[1] += 1
    flat = [(g, c) for g in NATIVE for c in NATIVE_CLS[g]]
    g, cls = flat[_RR[1] % len(flat)]
    l = dict(k="act", g=g, cls=cls, slope=[0, 1], lam=0)
    if g == "leaky":
        l["slope"] = rng.choice([[1, 2], [1, 4], [1, 8], [3, 4]])
    if g == "shrink":
        l["lam"] = rng.choice([1, 2])
    return l


def onehot_matrix(seq, A):
    return [[[1, 1] if seq[p] == c else [0, 1] for p in range(len(seq))] for c in range(A)]


def ref_matrix(rng, A, L):
    r = rng.random()
    if r < 0.55:
        return onehot_matrix([rng.randrange(A) for _ in range(L)], A)
    if r < 0.7:
        s = [rng.randrange(A) for _ in range(L)]; s[rng.randrange(L)] = -1
        return onehot_matrix(s, A)
    if r < 0.8:
        return [[[0, 1]] * L for _ in range(A)]
    if r < 0.9 and A in (2, 4):
        return [[[1, A]] * L for _ in range(A)]
    if r < 0.95:
        # entries k/8 that do NOT sum to one per position (scaled one-hot, arbitrary profiles): still a reference
        import math as _m
        vals = [[rng.choice([0, 0, 1, 2, 4, 4, 8, 3]) for _ in range(L)] for _ in range(A)]
        return [[[v // _m.gcd(v, 8) if v else 0, 8 // _m.gcd(v, 8) if v else 1] for v in row] for row in vals]
    cols = []
    for _ in range(L):
        cuts = sorted(rng.randint(0, 8) for _ in range(A - 1))
        v = [b - a for a, b in zip([0] + cuts, cuts + [8])]
        cols.append(v)
    import math
    return [[[cols[p][c] // math.gcd(cols[p][c], 8) if cols[p][c] else 0, 8 // math.gcd(cols[p][c], 8) if cols[p][c] else 1] for p in range(L)] for c in range(A)]


def gen_coincide(rng, cid):
    """Family in which pre-activations of example and reference coincide EXACTLY (in rationals) without being bit-identical in
    floating point: non-dyadic first-layer weights (k/10, k/3), a 1x1 convolution averaged over the whole length, and references
    that are permutations of the example.  The rescale rule must then use the derivative (inputs coincide)."""
    A = rng.choice([3, 4]); L = rng.randint(5, 9)
    C = rng.randint(1, 3)
    den = rng.choice([10, 3, 7])
    # a large bias (|z| ~ 20-40) makes the summation round-off of the two halves differ by more than a few machine epsilons
    big = rng.choice([-1, 1]) * rng.randint(20 * den, 40 * den)
    act = act_layer(rng, True)
    if act["g"] == "cube":
        act["g"] = "sq"                       # keeps TLC's 32-bit rationals in range
    if act["g"] in ("relu6", "shrink"):
        act = dict(k="act", g="leaky", cls="LeakyReLU", slope=[1, 4], lam=0)
    layers = [dict(k="conv", W=rand_w(rng, (C, A, 1), -9, 9), b=[big + v for v in rand_w(rng, (C,), -5, 5)], stride=1, dil=1, pad=0, ws=[1, den]),
              dict(k="avgpool", size=L), dict(k="flatten"), act]
    units = rng.randint(1, 2)
    layers.append(dict(k="linear", W=rand_w(rng, (units, C)), b=rand_w(rng, (units,), -1, 1), ws=[1, 1]))
    for l in layers:
        l.setdefault("W", []); l.setdefault("b", []); l.setdefault("ws", [1, 1]); l.setdefault("stride", 1)
        l.setdefault("dil", 1); l.setdefault("pad", 0); l.setdefault("size", 1); l.setdefault("g", ""); l.setdefault("cls", "")
        l.setdefault("slope", [0, 1]); l.setdefault("lam", 0)
    x = [rng.randrange(A) for _ in range(L)]
    refs = []
    for _ in range(rng.randint(1, 3)):
        r = list(x); rng.shuffle(r)
        if rng.random() < 0.3:
            r[rng.randrange(L)] = rng.randrange(A)
        refs.append(onehot_matrix(r, A))
    return dict(id=cid, A=A, x=x, refs=refs, refmode="tensor", nref=len(refs), target=rng.randrange(units), layers=layers,
                hyp=rng.random() < 0.5, bs=rng.randint(1, len(refs) + 1), seed=rng.randrange(1000), nout=units, affine=False, coincide=True)


def _fwd_twopool(layers, seq_matrix):
    """exact forward pass (Fractions) of the restricted layer set of gen_twopool; returns the list of activations"""
    from fractions import Fraction as Fr
    t = [[Fr(v[0], v[1]) for v in row] for row in seq_matrix]           # C x L
    acts = [t]
    for l in layers:
        if l["k"] == "conv":
            W, b = l["W"], l["b"]; K = len(W[0][0]); Lout = len(t[0]) - K + 1
            t = [[Fr(b[o]) + sum(Fr(W[o][c][k]) * t[c][q + k] for c in range(len(t)) for k in range(K)) for q in range(Lout)]
                 for o in range(len(W))]
        elif l["k"] == "act":
            sl = Fr(l["slope"][0], l["slope"][1])
            f = (lambda z: max(z, Fr(0))) if l["g"] == "relu" else (lambda z: min(max(z, Fr(0)), Fr(6))) if l["g"] == "relu6" else (
                lambda z: z if z > 0 else sl * z)
            t = [[f(z) for z in row] for row in t]
        elif l["k"] == "maxpool":
            t = [[max(row[2 * q], row[2 * q + 1]) for q in range(len(row) // 2)] for row in t]
        else:
            break
        acts.append(t)
    return acts


def _twopool_hard(layers, x, refs, A):
    """does some reference put the case into the situation described in gen_twopool?  (second pooling stage: a window position p
    where example and reference coincide, p is the example's maximum but not the reference's (or the other way round); the
    convolution feeding p cancels first-stage deltas of both signs)"""
    ax = _fwd_twopool(layers, onehot_matrix(x, A))
    for rm in refs:
        ar = _fwd_twopool(layers, rm)
        p1x, p1r = ax[3], ar[3]                  # outputs of the first pooling stage (input of the second convolution)
        in2x, in2r = ax[5], ar[5]                # inputs of the second pooling stage
        W = layers[3]["W"]; K = len(W[0][0])
        for ch in range(len(in2x)):
            for q in range(len(in2x[ch]) // 2):
                for p, o in ((2 * q, 2 * q + 1), (2 * q + 1, 2 * q)):
                    if in2x[ch][p] != in2r[ch][p]:
                        continue
                    xs = in2x[ch][p] >= in2x[ch][o] and (p < o or in2x[ch][p] > in2x[ch][o])       # p is the example's arg max
                    rs = in2r[ch][p] >= in2r[ch][o] and (p < o or in2r[ch][p] > in2r[ch][o])
                    if xs == rs:
                        continue
                    terms = [W[ch][c][k] * (p1x[c][p + k] - p1r[c][p + k]) for c in range(len(p1x)) for k in range(K)]
                    if any(v > 0 for v in terms) and any(v < 0 for v in terms):
                        return True
    return False


def gen_twopool(rng, cid):
    for _ in range(400):
        c = _gen_twopool(rng, cid)
        if _twopool_hard(c["layers"], c["x"], c["refs"], c["A"]):
            c["hard"] = True
            return c
    return c


def _gen_twopool(rng, cid):
    """Two max-pooling stages with references that coincide with the example over most receptive fields: pooling windows then
    hold inputs with delta_in = 0 next to ones that differ, and example and reference attain their maxima at different
    positions.  A rule that falls back to the ordinary gradient there makes the two halves of the batch carry different
    multipliers; the earlier pooling stage must not mix them (completeness breaks otherwise)."""
    A = rng.choice([2, 4]); L = rng.randint(11, 16)
    layers = []
    C, Lc = A, L
    for stage in range(2):
        K = rng.choice([1, 1, 2, 3]) if stage == 0 else rng.choice([1, 1, 2])
        stride = 1
        Lout = (Lc - K) // stride + 1
        Cout = rng.randint(1, 3)
        layers.append(dict(k="conv", W=rand_w(rng, (Cout, C, K)), b=rand_w(rng, (Cout,), -1, 1), stride=stride, dil=1, pad=0, ws=[1, 1]))
        C, Lc = Cout, Lout
        g, cls = rng.choice([("leaky", "LeakyReLU"), ("leaky", "PReLU"), ("relu", "ReLU"), ("relu", "ReLU"), ("relu6", "ReLU6")])
        layers.append(dict(k="act", g=g, cls=cls, slope=rng.choice([[1, 2], [3, 4]]) if g == "leaky" else [0, 1], lam=0))
        layers.append(dict(k="maxpool", size=2, pad=0, ceil=0)); Lc = (Lc - 2) // 2 + 1
    layers.append(dict(k="flatten"))
    n_in = C * Lc
    for j in range(rng.randint(1, 2)):
        units = rng.randint(1, 2)
        layers.append(dict(k="linear", W=rand_w(rng, (units, n_in)), b=rand_w(rng, (units,), -1, 1), ws=[1, 1]))
        n_in = units
    for l in layers:
        l.setdefault("W", []); l.setdefault("b", []); l.setdefault("ws", [1, 1]); l.setdefault("stride", 1)
        l.setdefault("dil", 1); l.setdefault("pad", 0); l.setdefault("size", 1); l.setdefault("g", ""); l.setdefault("cls", "")
        l.setdefault("slope", [0, 1]); l.setdefault("lam", 0)
    x = [rng.randrange(A) for _ in range(L)]
    refs = []
    for _ in range(rng.randint(1, 3)):
        r = list(x)
        for _ in range(rng.randint(1, 4)):
            r[rng.randrange(L)] = rng.randrange(A)
        if rng.random() < 0.3:
            rng.shuffle(r)
        refs.append(onehot_matrix(r, A))
    return dict(id=cid, A=A, x=x, refs=refs, refmode="tensor", nref=len(refs), target=rng.randrange(n_in), layers=layers,
                hyp=rng.random() < 0.5, bs=rng.randint(1, len(refs) + 1), seed=rng.randrange(1000), nout=n_in, nest=rng.randrange(4),
                affine=False)


def gen_case(rng, cid, allow_maxpool=True):
    if allow_maxpool and cid % 6 == 1:
        return gen_twopool(rng, cid)
    if rng.random() < 0.15:
        return gen_coincide(rng, cid)
    A = rng.choice([2, 3, 4, 4])
    L = rng.randint(4, 10)
    layers = []
    C, Lc, flat = A, L, None
    scale_k = rng.choice([0, 0, 0, 6, 12, 16])
    poly_budget = 1 if scale_k == 0 else 0
    nconv = rng.randint(0, 2)
    first = True
    for _ in range(nconv):
        K = rng.randint(1, min(3, Lc))
        stride = rng.randint(1, 2); dil = rng.randint(1, 2); pad = rng.randint(0, 1)
        Lout = (Lc + 2 * pad - dil * (K - 1) - 1) // stride + 1
        if Lout < 1:
            stride, dil, pad = 1, 1, 0
            Lout = Lc - K + 1
        Cout = rng.randint(1, 3)
        layers.append(dict(k="conv", W=rand_w(rng, (Cout, C, K)), b=rand_w(rng, (Cout,), -1, 1), stride=stride, dil=dil, pad=pad,
                           ws=[1, 2 ** scale_k] if first else [1, 1]))
        first = False
        C, Lc = Cout, Lout
        if rng.random() < 0.75:
            a = act_layer(rng, poly_budget > 0)
            poly_budget -= a["g"] in ("sq", "cube")
            if a["g"] == "relu6" and layers and layers[-1]["k"] in ("conv", "linear") and layers[-1]["ws"] == [1, 1]:
                layers[-1]["ws"] = [3, 1]      # pre-activations on both sides of the upper knee at 6, not only of the one at 0
            layers.append(a)
        r = rng.random()
        if Lc >= 2 and r < 0.25:
            layers.append(dict(k="avgpool", size=2)); Lc //= 2
        elif Lc >= 2 and r < 0.45 and allow_maxpool:
            mp = rng.choice([0, 0, 1])
            cm = 1 if rng.random() < 0.4 else 0          # ceil_mode: a partial last window when the padded length is odd
            if cm:
                lo = (Lc + 2 * mp - 2 + 1) // 2 + 1
                if (lo - 1) * 2 >= Lc + mp:
                    lo -= 1
            else:
                lo = (Lc + 2 * mp - 2) // 2 + 1
            layers.append(dict(k="maxpool", size=2, pad=mp, ceil=cm)); Lc = lo
    layers.append(dict(k="flatten"))
    n_in = C * Lc
    for j in range(rng.randint(1, 2)):
        last = False
        units = rng.randint(1, 3)
        layers.append(dict(k="linear", W=rand_w(rng, (units, n_in)), b=rand_w(rng, (units,), -1, 1), ws=[1, 2 ** scale_k] if first else [1, 1]))
        first = False
        n_in = units
        if rng.random() < 0.6:
            a = act_layer(rng, poly_budget > 0)
            poly_budget -= a["g"] in ("sq", "cube")
            if a["g"] == "relu6" and layers and layers[-1]["k"] in ("conv", "linear") and layers[-1]["ws"] == [1, 1]:
                layers[-1]["ws"] = [3, 1]      # pre-activations on both sides of the upper knee at 6, not only of the one at 0
            layers.append(a)
    if layers[-1]["k"] == "act" and rng.random() < 0.7:
        units = rng.randint(1, 2)
        layers.append(dict(k="linear", W=rand_w(rng, (units, n_in)), b=rand_w(rng, (units,), -1, 1), ws=[1, 1]))
        n_in = units
    for l in layers:                        # every layer record carries every field (TLC records are total)
        l.setdefault("W", []); l.setdefault("b", []); l.setdefault("ws", [1, 1]); l.setdefault("stride", 1)
        l.setdefault("dil", 1); l.setdefault("pad", 0); l.setdefault("size", 1); l.setdefault("g", ""); l.setdefault("cls", "")
        l.setdefault("slope", [0, 1]); l.setdefault("lam", 0)
    x = [rng.randrange(A) for _ in range(L)]
    refmode = rng.choice(["tensor", "tensor", "dinuc"])
    nref = rng.randint(1, 3)
    # explicit references as A x L matrices of rationals: one-hot, one-hot with an all-zero (N) column, all-zero, uniform, k/8 frequencies
    refs = [ref_matrix(rng, A, L) for _ in range(nref)] if refmode == "tensor" else []
    return dict(id=cid, A=A, x=x, refs=refs, refmode=refmode, nref=nref, target=rng.randrange(n_in), layers=layers,
                hyp=rng.random() < 0.5, bs=rng.randint(1, nref + 1), seed=rng.randrange(1000), nout=n_in, nest=rng.randrange(4),
                affine=not any(l["k"] in ("act", "maxpool") for l in layers))

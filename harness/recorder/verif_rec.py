"""pytest plugin (-p verif_rec): records every top-level call of a public tangermeme function made by the repository's own
tests as one ndjson event -- argument digests before/after, model state before/after, numba thread count before/after,
outcome.  Installed only when TANGERMEME_VERIF=1; nothing in the repository is modified (wrappers are monkeypatches that are
put in place before test collection, so `from tangermeme.x import f` in the tests binds the wrapper).  Nested calls are not
events (depth counter).  Events go to $VERIF_REC_DIR/rec-<pid>.ndjson."""
import functools
import importlib
import inspect
import json
import os
import zlib

_DEPTH = [0]
_OUT = [None]
MODULES = ["ersatz", "predict", "deep_lift_shap", "ism", "marginalize", "ablate", "space", "variant_effect", "product", "design",
           "utils", "annotate", "kmers", "seqlet", "io", "match", "tools.fimo", "tools.tomtom"]


def _crc(b):
    return zlib.crc32(b) & 0x7fffffff


def _dig(v):
    import numpy
    import torch
    if isinstance(v, torch.Tensor):
        a = v.detach().cpu().contiguous().numpy()
        return _crc(a.tobytes() + str(a.dtype).encode() + str(a.shape).encode())
    if isinstance(v, numpy.ndarray):
        return _crc(numpy.ascontiguousarray(v).tobytes() + str(v.dtype).encode() + str(v.shape).encode())
    return None


def _tensors(args, kwargs):
    out = []
    def walk(v, path):
        d = _dig(v)
        if d is not None:
            out.append((path, v))
        elif isinstance(v, (list, tuple)) and len(v) <= 64:
            for i, x in enumerate(v):
                walk(x, "%s[%d]" % (path, i))
    for i, a in enumerate(args):
        walk(a, "arg%d" % i)
    for k, a in kwargs.items():
        walk(a, k)
    return out


def _models(args, kwargs):
    import torch
    return [v for v in list(args) + list(kwargs.values()) if isinstance(v, torch.nn.Module)]


def _alpha(m):
    nh = 0
    for s in m.modules():
        nh += len(s._forward_hooks) + len(s._forward_pre_hooks) + len(s._backward_hooks) + len(getattr(s, "_backward_pre_hooks", {}))
    try:
        sd = _crc(b"".join(v.detach().cpu().contiguous().numpy().tobytes() for v in m.state_dict().values()))
    except Exception:
        sd = -1
    return dict(hooks=nh, sd=sd, training=bool(m.training))


def _wrap(fn, name):
    @functools.wraps(fn)
    def wrapper(*args, **kwargs):
        if _DEPTH[0] > 0:
            return fn(*args, **kwargs)
        import numba
        _DEPTH[0] += 1
        tens = _tensors(args, kwargs)
        before = [_dig(v) for _, v in tens]
        models = _models(args, kwargs)
        mb = [_alpha(m) for m in models]
        tb = numba.get_num_threads()
        out = "returned"
        try:
            return fn(*args, **kwargs)
        except BaseException as e:
            out = "raised:" + type(e).__name__
            raise
        finally:
            _DEPTH[0] -= 1
            try:
                after = [_dig(v) for _, v in tens]
                ma = [_alpha(m) for m in models]
                ev = dict(fn=name, out="raised" if out != "returned" else "returned", exc=out[7:] if out != "returned" else "",
                          paths=[p for p, _ in tens], before=before, after=after,
                          mhooks_before=[a["hooks"] for a in mb], mhooks_after=[a["hooks"] for a in ma],
                          msd_before=[a["sd"] for a in mb], msd_after=[a["sd"] for a in ma],
                          threads_before=int(tb), threads_after=int(numba.get_num_threads()),
                          test=os.environ.get("PYTEST_CURRENT_TEST", "").split(" ")[0])
                _OUT[0].write(json.dumps(ev) + "\n"); _OUT[0].flush()
            except Exception:
                pass
    wrapper.__verif_wrapped__ = True
    return wrapper


def pytest_configure(config):
    if os.environ.get("TANGERMEME_VERIF") != "1":
        return
    d = os.environ.get("VERIF_REC_DIR")
    if not d:
        return
    os.makedirs(d, exist_ok=True)
    _OUT[0] = open(os.path.join(d, "rec-%d.ndjson" % os.getpid()), "a")
    mods = {}
    for m in MODULES:
        try:
            mods[m] = importlib.import_module("tangermeme." + m)
        except Exception:
            pass
    wrapped = {}
    for mname, mod in mods.items():
        for name, obj in list(vars(mod).items()):
            if name.startswith("_") or not inspect.isfunction(obj) or getattr(obj, "__verif_wrapped__", False):
                continue
            if getattr(obj, "__module__", "") != mod.__name__:
                continue
            wrapped[id(obj)] = (obj, _wrap(obj, mname + "." + name))
    # rebind in every tangermeme module that holds a reference (defining module and `from .x import f` importers)
    for mod in mods.values():
        for name, obj in list(vars(mod).items()):
            if id(obj) in wrapped:
                setattr(mod, name, wrapped[id(obj)][1])

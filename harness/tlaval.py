"""TLA+ value <-> Python value.

parse_value / parse_dump read the textual form TLC prints in `-dump` files and
`-simulate file=` behaviours:  records [a |-> 1], functions (0 :> 1 @@ 1 :> 2),
sequences <<1, 2>>, sets {1, 2}, strings, integers, booleans, model values.

Python images: record -> dict, function -> dict (keys as parsed), sequence -> list,
set -> frozenset when hashable else list (tagged by TlaSet), string -> str, int -> int.
"""
import re

_TOK = re.compile(r'''
    (?P<ws>\s+)
  | (?P<str>"(?:[^"\\]|\\.)*")
  | (?P<int>-?\d+)
  | (?P<sym><<|>>|\|->|:>|@@|\[|\]|\(|\)|\{|\}|,)
  | (?P<id>[A-Za-z_][A-Za-z0-9_!]*)
''', re.X)


class TlaSet(list):
    """A TLA+ set whose elements are unhashable in Python (kept as a list)."""


def _tokens(text):
    pos, n = 0, len(text)
    out = []
    while pos < n:
        m = _TOK.match(text, pos)
        if not m:
            raise ValueError("cannot tokenise TLA+ value at %r" % text[pos:pos + 40])
        pos = m.end()
        k = m.lastgroup
        if k == 'ws':
            continue
        out.append((k, m.group()))
    return out


def _hashable(v):
    if isinstance(v, list):
        return tuple(_hashable(x) for x in v)
    if isinstance(v, dict):
        return tuple(sorted((_hashable(k), _hashable(x)) for k, x in v.items()))
    return v


class _P:
    def __init__(self, toks):
        self.t = toks
        self.i = 0

    def peek(self):
        return self.t[self.i] if self.i < len(self.t) else (None, None)

    def eat(self, val=None):
        k, v = self.t[self.i]
        if val is not None and v != val:
            raise ValueError("expected %r got %r at token %d" % (val, v, self.i))
        self.i += 1
        return k, v

    def value(self):
        k, v = self.eat()
        if k == 'int':
            return int(v)
        if k == 'str':
            return bytes(v[1:-1], 'utf8').decode('unicode_escape')
        if k == 'id':
            if v == 'TRUE':
                return True
            if v == 'FALSE':
                return False
            return v
        if v == '<<':
            out = []
            while self.peek()[1] != '>>':
                out.append(self.value())
                if self.peek()[1] == ',':
                    self.eat()
            self.eat('>>')
            return out
        if v == '{':
            out = []
            while self.peek()[1] != '}':
                out.append(self.value())
                if self.peek()[1] == ',':
                    self.eat()
            self.eat('}')
            try:
                return frozenset(_hashable(x) for x in out) if all(
                    not isinstance(x, (list, dict)) for x in out) else TlaSet(out)
            except TypeError:
                return TlaSet(out)
        if v == '[':
            out = {}
            while self.peek()[1] != ']':
                _, name = self.eat()
                self.eat('|->')
                out[name] = self.value()
                if self.peek()[1] == ',':
                    self.eat()
            self.eat(']')
            return out
        if v == '(':
            out = {}
            while True:
                key = self.value()
                self.eat(':>')
                out[_hashable(key)] = self.value()
                if self.peek()[1] == '@@':
                    self.eat()
                    continue
                break
            self.eat(')')
            return out
        raise ValueError("unexpected token %r" % v)


def parse_value(text):
    p = _P(_tokens(text))
    v = p.value()
    if p.i != len(p.t):
        raise ValueError("trailing tokens in %r" % text[:80])
    return v


_STATE_HDR = re.compile(r'^State \d+:.*$', re.M)
_CONJ = re.compile(r'^/\\ ([A-Za-z_][A-Za-z0-9_]*) = ', re.M)


def parse_state_body(body):
    """body: the '/\\ v = value' conjunct list of one state -> dict."""
    out = {}
    ms = list(_CONJ.finditer(body))
    if not ms:  # single-variable specs print "v = value"
        m = re.match(r'\s*([A-Za-z_][A-Za-z0-9_]*) = ', body)
        out[m.group(1)] = parse_value(body[m.end():])
        return out
    for j, m in enumerate(ms):
        end = ms[j + 1].start() if j + 1 < len(ms) else len(body)
        out[m.group(1)] = parse_value(body[m.end():end])
    return out


def parse_dump(path, keep=None):
    """Parse a TLC `-dump` file. keep(body_text) -> bool is a cheap pre-filter."""
    text = open(path).read()
    hdrs = list(_STATE_HDR.finditer(text))
    states = []
    for j, h in enumerate(hdrs):
        end = hdrs[j + 1].start() if j + 1 < len(hdrs) else len(text)
        body = text[h.end():end]
        if keep is not None and not keep(body):
            continue
        states.append(parse_state_body(body))
    return states


# ---------------------------------------------------------------- Python -> TLA+ text
def to_tla(v):
    if isinstance(v, bool):
        return 'TRUE' if v else 'FALSE'
    if isinstance(v, int):
        return str(v)
    if isinstance(v, str):
        return '"' + v.replace('\\', '\\\\').replace('"', '\\"') + '"'
    if isinstance(v, (list, tuple)):
        return '<<' + ', '.join(to_tla(x) for x in v) + '>>'
    if isinstance(v, (set, frozenset)):
        return '{' + ', '.join(to_tla(x) for x in sorted(v, key=repr)) + '}'
    if isinstance(v, dict):
        if all(isinstance(k, str) for k in v):
            return '[' + ', '.join('%s |-> %s' % (k, to_tla(x)) for k, x in v.items()) + ']'
        return '(' + ' @@ '.join('%s :> %s' % (to_tla(k), to_tla(x)) for k, x in v.items()) + ')'
    raise TypeError(type(v))

"""C18 — annotation and k-mer counting (CountingOps / Counting / Counting_Trace)."""
import copy

from .. import std

RULE = ("M1: every annotation table with <= MaxRows rows over NExamples x NAnnot x all spans in [0,MaxPos] (so abutting, "
        "overlapping, nested, coincident and exactly-max_distance-apart pairs all occur) x {count, dim 0/1, pairwise, spacing} x "
        "{symmetric, ordered} x {inferred, explicit shape}, and every sequence L<=KL over KA symbols x k<=KK for kmers (plain and "
        "scored), enumerated by TLC and replayed; M2: seeded random tables (<=60 rows, 8 examples, 10 annotations, tuple / "
        "DataFrame / tensor forms, 4 dtypes) and k-mer calls validated by Counting_Trace. distinct_nontrivial = M1 tables "
        "containing at least one same-example pair, plus all k-mer calls.")
EXHAUSTIVE = True
KEYS = ("op", "rows", "E", "N", "D", "sym", "x", "k", "A", "sc")


def run(ctx):
    cfg = "Counting_MC_quick.cfg" if ctx.quick else "Counting_MC_thorough.cfg"
    std.m1(ctx, "Counting", cfg, "c18", evkeys=KEYS)

    def negs(events):
        out = []
        for op in ("spacing", "count", "kmers"):
            ok = [e for e in events if e["op"] == op and e["st"] == "ok" and e["y"] and e["y"] != [-999999]]
            if ok:
                c = copy.deepcopy(ok[0])
                y = c["y"]
                while isinstance(y[0], list):
                    y = y[0]
                y[0] += 1
                out.append(c)
        return out
    std.m2(ctx, "c18", "Counting_Trace", "Counting_Trace.cfg", 3000 if ctx.quick else 60000, negs, evkeys=KEYS)
    ctx.assumptions += ["counts are kept below the dtype range (uint8 tables have < 256 rows)",
                        "k-mer scores are small integers so float32 sums are exact"]


def replay(ctx, v):
    return std.replay_ev(ctx, v, "c18", "Counting_Trace", "Counting_Trace.cfg")

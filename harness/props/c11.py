"""C11 — FIMO p-value tables (FimoOps / FimoTable design model; FimoTable_Oracle exact tail counts in limb arithmetic)."""
from .. import core, std
from ..impl_c11_compare import compare_tables, compare_hits

RULE = ("Design model: FimoTable.tla (Convolve per column, Accumulate) for EVERY 4 x w integer score matrix with w <= MaxW and "
        "entries in Lo..Hi: total mass 4^j, support bounds, tail = 4^w at the minimum, non-increasing, 0 above the maximum, equal "
        "to the brute-force count over all 4^w sequences. M1: every such matrix through fimo._pwm_to_mapping (bin_size 1), "
        "compared bin by bin with the model's tail (finite, <= 1, exact, -inf above the maximum). M3: realistic PWMs (Dirichlet, "
        "zeros, uniform, one-hot and two-letter columns; widths 1-30; bin sizes 0.01-1; eps 1e-6..0.1) discretised by the "
        "documented rule; TLC returns the exact tail counts in two-limb arithmetic; for widths <= 12 the p-value column of fimo() hits "
        "is compared with the same counts, and half of those motifs are scanned again in the same process with another eps and then "
        "the first eps (call histories). distinct_nontrivial = matrices / PWMs whose "
        "minimum and maximum attainable scores differ.")
EXHAUSTIVE = True


def run(ctx):
    std.m1(ctx, "FimoTableMC", "FimoTable_MC_quick.cfg" if ctx.quick else "FimoTable_MC_thorough.cfg", "c11", marker='pc = "done"',
           evkeys=("op", "M", "detail"))
    n = 48 if ctx.quick else 1600
    shards = core.NCPU
    gen = ctx.run_impl("c11", [dict(id=k, mode="gen", seed=ctx.seed * 1009 + k, n=max(2, n // shards), wide=1 if ctx.quick else 6) for k in range(shards)], nproc=shards,
                       timeout_s=3000 if ctx.quick else 9000, env=dict(VERIF_CASE_TIMEOUT=900 if ctx.quick else 3000))
    cases = []
    nwide = 0
    for k in range(shards):
        if gen[k].get("st") in ("crashed", "timeout"):
            ctx.violation("M3", "_pwm_to_mapping %s on a realistic PWM" % gen[k]["st"], dict(mode="shard", seed=ctx.seed * 1009 + k), cls=gen[k]["st"])
            continue
        cases += gen[k]["cases"]
        for wc in gen[k].get("wide", []):
            nwide += 1
            if wc["v"]:
                ctx.violation("M3", wc["v"], dict(mode="wide", w=wc["w"], bin_size=wc["bin_size"], seed=ctx.seed * 1009 + k), cls=wc["v"].split(" (")[0][:50])
    for i, c in enumerate(cases):
        c["id"] = i + 1
    ocases = [dict(id=c["id"], M=c["M"], R=c["R"]) for c in cases]
    oracle = {o["id"]: o for o in ctx.oracle("FimoTable_Oracle", "FimoTable_Oracle.cfg", ocases, shards=core.NCPU, timeout_s=3000)}
    nbad = nhits = 0
    for c in cases:
        o = oracle[c["id"]]
        v = (compare_tables(c, o) or compare_hits(c, o)) if c["st"] == "ok" else "_pwm_to_mapping raised"
        nhits += len(c["hits"]) if isinstance(c.get("hits"), list) else 0
        if c["R"] > 0:
            ctx.nontrivial(("pwm", c["id"]))
        if v:
            nbad += 1
            ctx.violation("M3", "PWM of width %d, bin_size %s, eps %s: %s" % (c["w"], c["bin_size"], c["eps"], v),
                          dict(mode="pwm", pwm=c["pwm"], eps=c["eps"], bin_size=c["bin_size"], step=c.get("step", 0)), cls=v.split(" (")[0].split(" is ")[0])
        elif len(ctx.cov["samples"]) < 4:
            ctx.sample(dict(lane="M3", w=c["w"], bin_size=c["bin_size"], eps=c["eps"], R=c["R"], tail_counts_head=o["tail"][:3],
                            table_head=c["table"][:3]))
    ctx.cov["evaluations"] += len(cases)
    ctx.cov["traces_validated_against_impl"] += len(cases)
    ctx.lane("M3", wide_motifs=nwide, pwms=len(cases), fimo_hit_pvalues=nhits, call_histories=sum(1 for c in cases if c.get("step") == 2), mismatches=nbad, widths=sorted({c["w"] for c in cases}), max_bins=max([c["R"] for c in cases] or [0]))
    # negative control: a table shifted by 4^-w must be refused by the comparison
    c0 = dict(cases[0]); c0["table"] = [t if isinstance(t, str) else __import__("math").log2(2.0 ** t + 4.0 ** -c0["w"]) for t in c0["table"]]
    ctx.negative_control("a table offset by 4^-w must be refused", bool(compare_tables(c0, oracle[cases[0]["id"]])))
    ctx.assumptions += ["comparison tolerance 1e-9 relative on 2**table[b] against Tail/4^w (exact counts from TLC)",
                        "the driver discretises with the documented rule round(log2((pwm+eps)/0.25)/bin_size); other JIT builds are not spanned"]


def replay(ctx, v):
    print("replay: re-run the check (tables are regenerated from the seed)")
    return 2

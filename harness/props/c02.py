"""C02 — shuffles (DinucWalk.tla step-shaped model, ShuffleOps / Shuffle_Trace relations)."""
import copy

from .. import core, std

RULE = ("Design model: DinucWalk.tla (Permute / Walk / Finish) checked by TLC for every sequence of the bounded scope and EVERY "
        "outcome of the internal permutations: NeverStranded, EveryWalkOK (dinucleotide multiset, first/last), AllConsumed, "
        "termination; KeepLast=FALSE must yield the stranded counter-example. M1: every complete behaviour (sequence + chosen "
        "permutations) replayed into ersatz._fast_shuffle.py_func with a scripted permutation source that also checks the "
        "requested sizes. M2: public shuffle / dinucleotide_shuffle on random inputs/regions/n/seeds, each configuration executed "
        "twice in different order; Shuffle_Trace checks relations, flanks, validity, digests and determinism (memo state). "
        "distinct_nontrivial = behaviours on sequences with >= 2 distinct symbols and length >= 3.")
EXHAUSTIVE = True
KEYS = ("op", "A", "x", "start", "end", "n", "seed", "key", "dt")


def run(ctx):
    runs = [("DinucWalk_MC_quick.cfg", 3), ("DinucWalk_MC_quick2.cfg", 3)] if ctx.quick else \
        [("DinucWalk_MC_thorough.cfg", 4), ("DinucWalk_MC_thorough2.cfg", 3)]
    unavailable = False
    for cfg, A in runs:
        _, res, _ = std.m1(ctx, "DinucWalk", cfg, "c02", extra=dict(A=A), marker='pc = "done"',
                           evkeys=("op", "s", "hist"))
        unavailable |= any(r.get("op") == "lane-unavailable" for r in res.values())
    if unavailable:
        raise core.Machinery("ersatz._fast_shuffle.py_func is not available: the enumerated-permutation lane cannot run")
    ctx.spec_mutant("DinucWalk", "DinucWalk_MC_mutant.cfg", violated="NeverStranded")

    def negs(events):
        out = []
        ok = [e for e in events if e["st"] == "ok" and e["valid"] and e["op"] == "dinuc" and e["end"] - e["start"] >= 4
              and len(set(e["y"][0][0][e["start"]:e["end"]])) > 1]
        def pairs(q, a, b):
            from collections import Counter
            return Counter(zip(q[a:b - 1], q[a + 1:b]))
        done = False
        for e in ok:
            seq0 = e["y"][0][0]
            for i in range(e["start"] + 1, e["end"] - 2):
                seq = list(seq0)
                seq[i], seq[i + 1] = seq[i + 1], seq[i]      # keeps the composition; must break the dinucleotide multiset
                if pairs(seq, e["start"], e["end"]) != pairs(seq0, e["start"], e["end"]):
                    c = copy.deepcopy(e); c["y"][0][0] = seq; c["key"] = 0
                    out.append(c); done = True
                    break
            if done:
                break
        ok = [e for e in events if e["st"] == "ok" and e["valid"] and e["op"] == "shuffle"]
        if ok:
            c = copy.deepcopy(ok[0]); c["y"][0][0][0] = (c["y"][0][0][0] + 1) % c["A"]; c["key"] = 0
            out.append(c)
        return out
    std.m2(ctx, "c02", "Shuffle_Trace", "Shuffle_Trace.cfg", 1600 if ctx.quick else 40000, negs, shards=8, jvms=1, evkeys=KEYS,
           strip=("kind", "msg", "seed", "npseed"))
    # determinism ACROSS interpreter processes: the same seeded calls under two different hash salts
    nx = 300 if ctx.quick else 4000
    runs = []
    for salt in (101, 202):
        o = ctx.run_impl("c02", [dict(id=0, mode="xproc", seed=ctx.seed * 77 + 5, n=nx)], nproc=1, timeout_s=3000,
                         env=dict(PYTHONHASHSEED=salt, VERIF_CASE_TIMEOUT=900))[0]
        runs.append(o.get("outs"))
    if runs[0] is None or runs[1] is None:
        ctx.violation("M2", "seeded shuffles did not terminate / crashed in a fresh interpreter", dict(mode="xproc"), cls="xproc-crash")
    else:
        diff = [k for k in range(len(runs[0])) if runs[0][k] != runs[1][k]]
        for k in diff[:3]:
            ctx.violation("M2", "a seeded dinucleotide_shuffle call gives different outcomes in two interpreter processes: %r vs %r" % (
                runs[0][k][:2], runs[1][k][:2]), dict(mode="xproc", seed=ctx.seed * 77 + 5, index=k), cls="xproc")
        ctx.cov["evaluations"] += len(runs[0])
        ctx.lane("xproc", calls=len(runs[0]), differing=len(diff), raised=sum(1 for o in runs[0] if o[0] != "ok"))
        ctx.negative_control("two different outcome lists must be told apart", runs[0] != [["x"]] )
    if not ctx.quick:
        from .. import suite
        suite.suite_lane(ctx, ["tests/test_ersatz.py", "tests/test_ablate.py"], ["ersatz.shuffle", "ersatz.dinucleotide_shuffle"], clauses=("tensor",))
    ctx.assumptions += ["the pure-Python body of _fast_shuffle (py_func) is what numba compiles; the compiled path is exercised by M2",
                        "dinucleotide_shuffle: a raise is never a violation except for n=1 with an in-range region of length >= 3; "
                        "end=-1 is read as 'to the end' (the relation holds for both readings)"]


def replay(ctx, v):
    case = v["case"]
    if case.get("mode") == "ev" and "call" in case and "seed" in case["call"]:
        return std.replay_ev(ctx, v, "c02", "Shuffle_Trace", "Shuffle_Trace.cfg")
    print("replay: walk behaviours are re-checked by re-running the check")
    return 2

"""C10 — variant effects (VariantOps / Variant / Variant_Trace)."""
import copy

from .. import std

RULE = ("M1: TLC enumerates, for batches of 1-2 sequences of length <= MaxLen, every deletion set of size <= 3 per example "
        "(incl. positions inside the trimmed flank) x both trim sides, every insertion coordinate/character set of size <= 2 "
        "(incl. coordinate L and equal coordinates), every substitution row set of size <= 2 (incl. conflicting rows) and variant "
        "lists that cannot be honoured; each is executed with an identity func and with predict on an identity model, rows in "
        "three orders, four dtypes. M2: random batches (n<=4, L 4-14). distinct_nontrivial = cases touching position 0, L-1 or L, "
        "or with more than one variant row.")
EXHAUSTIVE = True
KEYS = ("op", "x", "rows", "left", "A")


def run(ctx):
    # the mask ALGORITHM of deletion_effect, statement by statement, equals the declarative edit (as-found keep rule = mutant)
    ctx.model_check("DeletionMask", "DeletionMask_MC.cfg")
    ctx.spec_mutant("DeletionMask", "DeletionMask_MC_asfound.cfg", violated="KeepsWhatTheDefinitionKeeps")
    cfg = "Variant_MC_quick.cfg" if ctx.quick else "Variant_MC_thorough.cfg"
    std.m1(ctx, "Variant", cfg, "c10", extra=dict(A=4), evkeys=KEYS)

    def negs(events):
        out = []
        for op in ("deletion", "insertion", "substitution"):
            ok = [e for e in events if e["op"] == op and e["st"] == "ok" and e["valid"]]
            if ok:
                c = copy.deepcopy(ok[0])
                c["after"][0][0] = (c["after"][0][0] + 1) % 4
                out.append(c)
        return out
    std.m2(ctx, "c10", "Variant_Trace", "Variant_Trace.cfg", 3000 if ctx.quick else 80000, negs, evkeys=KEYS)
    ctx.assumptions += ["func's inputs are observed through an identity func / identity model (output = the tensor it was given)",
                        "negative example indices are outside the scope; insertion at coordinate L and conflicting rows are 'either'"]


def replay(ctx, v):
    return std.replay_ev(ctx, v, "c10", "Variant_Trace", "Variant_Trace.cfg")

"""C01 — edit primitives (Ersatz.tla / ErsatzOps.tla / Ersatz_Trace.tla)."""
import copy

from .. import core

RULE = ("M1: every call of the TLC-enumerated scope (Ersatz.tla: all sequences L<=MaxL, motifs m<=MaxM, starts in "
        "[-3,L+3] and None, batches of two, delete/randomize spans, multisubstitute spacings) replayed into "
        "tangermeme.ersatz and compared with the specified zone/result; M2: seeded random calls (A 2-6, L<=60, n<=5, "
        "six dtypes, string/tensor motifs) validated by Ersatz_Trace. distinct_nontrivial = distinct calls that are "
        "boundary cases: start/end within 1 of a guard boundary, negative, past the end, per-example or mis-sized motif batch.")
EXHAUSTIVE = True


def boundary(c):
    L = len(c["x"][0])
    m = len(c["mo"][0][0]) if c["mo"] else 0
    s, e = c["start"], c["end"]
    if c["op"] in ("delete", "randomize"):
        return s <= 0 or e >= L - 1 or abs(e - s) <= 1
    if c["mo"] and any(len(mb) != 1 for mb in c["mo"]):
        return True
    return s == 9999 or s <= 0 or s >= L - m - 1


def run(ctx):
    A = 2
    cfg = "Ersatz_MC_quick.cfg" if ctx.quick else "Ersatz_MC_thorough.cfg"
    if not ctx.quick:
        A = 3
    r = ctx.model_check("Ersatz", cfg, dump=True, timeout_s=3000)
    blocks = ctx.dump_blocks(r, 'pc = "ret"')
    cases = [dict(id=i, state=b, A=A) for i, b in enumerate(blocks)]
    res = ctx.run_impl("c01", cases, nproc=core.NCPU, timeout_s=3000)
    ctx.lane("M1", cases=len(cases))
    rand_events = []
    zones = {}
    for i in range(len(cases)):
        o = res[i]
        if o.get("st") == "crashed":
            ctx.violation("M1", "interpreter crashed", dict(state=cases[i]["state"]), cls="crash")
            continue
        zones[(o["op"], o["zone"], o["st"])] = zones.get((o["op"], o["zone"], o["st"]), 0) + 1
        if o["v"]:
            ev = o["ev"]
            ctx.violation("M1", "%s: %s" % (ev["op"], o["v"]),
                          dict(mode="ev", call={k: ev[k] for k in ("op", "A", "x", "mo", "start", "end", "sp")},
                               variant=ev["variant"], expected=o["exp"], observed=dict(st=ev["st"], y=ev["y"])),
                          cls="%s/%s" % (o["op"], o["v"]))
        if "ev" in o:
            if o["ev"]["op"] == "randomize":
                e = dict(o["ev"]); e["id"] = i; e.pop("kind", None)
                rand_events.append(e)
            else:
                ctx.sample(dict(lane="M1", call={k: o["ev"][k] for k in ("op", "x", "mo", "start", "end", "sp")},
                                specified=o["exp"], observed=dict(st=o["ev"]["st"], y=o["ev"]["y"])))
    ctx.cov["evaluations"] += len(cases)
    ctx.cov["traces_validated_against_impl"] += len(cases) - len(rand_events)
    ctx.lane("M1", zones={"%s/%s/%s" % k: v for k, v in sorted(zones.items())})
    for i in range(len(cases)):
        if res[i].get("nontrivial"):
            ctx.nontrivial(i)
    # ---- M2: random calls through the trace spec (and M1's randomize results, which are relational)
    n_ev = 6000 if ctx.quick else 120000
    shards = 16
    m2 = ctx.run_impl("c01", [dict(id=k, mode="m2", seed=ctx.seed * 1000 + k, n=n_ev // shards) for k in range(shards)],
                      nproc=shards, timeout_s=3000 if ctx.quick else 9000, env=dict(VERIF_CASE_TIMEOUT=900 if ctx.quick else 3000))
    events = list(rand_events)
    nid = len(cases)
    for k in range(shards):
        for e in m2[k]["events"]:
            e = dict(e); e["id"] = nid; nid += 1; e.pop("kind", None)
            events.append(e)
    ctx.cov["evaluations"] += nid - len(cases)
    # negative controls: a wrong symbol in an accepted result, and a modified-input flag
    okev = [e for e in events if e["st"] == "ok" and e["op"] == "substitute" and e["valid"]]
    neg = []
    if okev:
        c1 = copy.deepcopy(okev[0]); c1["id"] = -1
        c1["y"][0][0] = (c1["y"][0][0] + 1) % c1["A"]
        c2 = copy.deepcopy(okev[-1]); c2["id"] = -2; c2["same"] = False
        neg = [c1, c2]
    ok_rand = [e for e in events if e["st"] == "ok" and e["op"] == "randomize" and e["valid"] and e["start"] > 0]
    if ok_rand:
        c3 = copy.deepcopy(ok_rand[0]); c3["id"] = -3
        c3["y"][0][0][0] = (c3["y"][0][0][0] + 1) % c3["A"]
        neg.append(c3)
    chunks = [events[k::8] for k in range(8)]
    chunks[0] = neg + chunks[0]
    import threading
    bads = [None] * 8
    errs = []

    def go(k):
        try:
            bads[k] = ctx.validate_trace("Ersatz_Trace", "Ersatz_Trace.cfg", chunks[k], tag="-%d" % k)
        except Exception as ex:   # noqa
            errs.append(ex)
    th = [threading.Thread(target=go, args=(k,)) for k in range(8)]
    [t.start() for t in th]; [t.join() for t in th]
    if errs:
        raise errs[0]
    ctx.cov["traces_validated_against_impl"] -= len(neg)
    bad = [b for bb in bads for b in bb]
    negids = {b[0] for b in bad if b[0] < 0}
    ctx.negative_control("corrupted events (wrong symbol / modified input / randomize outside span)",
                         negids == {c["id"] for c in neg} and len(neg) >= 2)
    byid = {e["id"]: e for e in events}
    for (i, clause) in bad:
        if i < 0:
            continue
        e = byid[i]
        ctx.violation("M2", "%s: %s" % (e["op"], clause),
                      dict(mode="ev", call={k: e[k] for k in ("op", "A", "x", "mo", "start", "end", "sp")},
                           variant=e.get("variant", 0), observed=dict(st=e["st"], y=e["y"])),
                      cls="%s/%s" % (e["op"], clause))
    ctx.lane("M2", events=len(events), rejected=len([b for b in bad if b[0] >= 0]))
    for e in events[len(rand_events):len(rand_events) + 2]:
        ctx.sample(dict(lane="M2", event={k: e[k] for k in ("op", "A", "x", "mo", "start", "end", "sp", "st", "y")}))
    if not ctx.quick:
        from .. import suite
        suite.suite_lane(ctx, ["tests/test_ersatz.py", "tests/test_marginalize.py", "tests/test_space.py"],
                         ["ersatz.substitute", "ersatz.insert", "ersatz.delete", "ersatz.multisubstitute", "ersatz.randomize"], clauses=("tensor",))
    ctx.assumptions += [
        "one-hot tensors are abstracted to symbol sequences by harness/impl/base.decode (total: anything else is INVALID)",
        "digest (CRC32 of bytes, dtype, shape) equality is taken as 'tensor not modified'",
        "zones: insert L-m<p<=L, delete with empty span, randomize with end=L are 'either' (DESIGN.md §5 C01)",
    ]


def replay(ctx, v):
    case = v["case"]
    res = ctx.run_impl("c01", [dict(id=0, mode="ev", call=case["call"], variant=case.get("variant", 0))], nproc=1)
    e = dict(res[0]["ev"]); e["id"] = 0; e.pop("kind", None)
    bad = ctx.validate_trace("Ersatz_Trace", "Ersatz_Trace.cfg", [e])
    print("observed:", dict(st=e["st"], y=e["y"], same=e["same"]))
    if bad:
        print("VIOLATION property=C01 replay=(replayed) clause=%s" % bad[0][1])
        return 1
    print("replay: event accepted by Ersatz_Trace")
    return 0

"""C03 — predict batching (Batching.tla step-shaped model, Batching_Trace replays recorded calls through its actions)."""
import copy
import random
import threading

from .. import core

RULE = ("Design model: Batching.tla (Enter / CheckArgs / Clamp / Batch / Concat) model-checked for all n<=MaxN, b<=MaxB, 0-2 args "
        "incl. a mis-sized one: windows non-empty, <= b, consecutive, partition 0..n-1, eval mode and no autograd inside the loop, "
        "termination. Binding: a recording exact-integer model (row ids encoded in the one-hot input, arg ids in the args, "
        "contains Dropout/BatchNorm, returns tensor/tuple/list) logs every forward; Batching_Trace replays every recorded call "
        "through the model's actions for every n in 1..N x b in 1..n+3 x 0-3 args x 4 output kinds (tensor, tuple, list, one-element tuple), plus mis-sized args. "
        "distinct_nontrivial = calls whose batch size does not divide n or exceeds it, or that carry extra args.")
EXHAUSTIVE = True


def run(ctx):
    ctx.model_check("Batching", "Batching_MC_quick.cfg" if ctx.quick else "Batching_MC_thorough.cfg", coverage=True)
    N = 12 if ctx.quick else 40
    rng = random.Random(ctx.seed)
    calls = []
    cid = 1
    for n in range(1, N + 1):
        for b in range(1, n + 4):
            for kind in ("tensor", "tuple", "list", "tuple1"):
                nargs = rng.randint(0, 3) if not (n <= 6) else (cid % 4)
                calls.append((cid, n, b, nargs, 0, kind, rng.randrange(6))); cid += 1
                if b % n != 0 or b > n or nargs:
                    ctx.nontrivial(cid)
        for bad in (1, 2):
            calls.append((cid, n, rng.randint(1, n + 2), rng.randint(1, 3), bad, "tensor", rng.randrange(6))); cid += 1
            ctx.nontrivial(cid)
    shards = 8
    parts = [calls[k::shards] for k in range(shards)]
    out = ctx.run_impl("c03", [dict(id=k, calls=parts[k]) for k in range(shards)], nproc=shards, timeout_s=3000 if ctx.quick else 9000, env=dict(VERIF_CASE_TIMEOUT=900 if ctx.quick else 3000))
    traces = [out[k]["events"] for k in range(shards)]
    for t in traces:
        for e in t:
            e.pop("kind", None)
    # negative controls: (1) an argument sliced with a shifted window, (2) a dropped last batch in the output
    neg = []
    grp = []
    for e in traces[0]:
        if e["ev"] == "call":
            grp = []
        grp.append(e)
        if e["ev"] == "return" and len(grp) >= 4 and grp[0]["argn"] and e["st"] == "ok" and not neg:
            g = copy.deepcopy(grp); g[0]["id"] = -1
            g[1]["args"][0] = [v + 1 for v in g[1]["args"][0]]
            neg += g
            g = copy.deepcopy(grp); g[0]["id"] = -2
            g[-1]["outs"][0] = g[-1]["outs"][0][:-1]
            neg += g
    traces[0] = traces[0] + neg
    bads = [None] * shards
    errs = []

    def go(k):
        try:
            bads[k] = ctx.validate_trace("Batching_Trace", "Batching_Trace.cfg", traces[k], tag="-%d" % k)
        except Exception as ex:  # noqa
            errs.append(ex)
    th = [threading.Thread(target=go, args=(k,)) for k in range(shards)]
    [t.start() for t in th]; [t.join() for t in th]
    if errs:
        raise errs[0]
    bad = [b for bb in bads for b in bb]
    ctx.cov["traces_validated_against_impl"] -= len(neg)
    ctx.negative_control("shifted arg window / truncated output must be rejected", {b[0] for b in bad if b[0] < 0} == {-1, -2})
    bycid = {c[0]: c for c in calls}
    for (i, clause) in bad:
        if i < 0:
            continue
        c = bycid[i]
        ctx.violation("M2", "predict(n=%d, batch_size=%d, args=%d, output=%s): %s" % (c[1], c[2], c[3], c[5], clause),
                      dict(mode="call", call=list(c)), cls=clause)
    ctx.cov["evaluations"] += len(calls)
    ctx.lane("M2", calls=len(calls), events=sum(len(t) for t in traces), rejected=len([b for b in bad if b[0] >= 0]))
    ctx.sample(dict(lane="M2", trace=traces[1][:8]))
    if not ctx.quick:
        from .. import suite
        suite.suite_lane(ctx, ["tests/test_predict.py"], ["predict."], clauses=("tensor",), workers=2)
    ctx.assumptions += ["row ids are encoded in the one-hot input (base 4 over 4 positions) and arg ids in the args, so every "
                        "(X row, arg row) pairing is observable", "device='cpu'"]


def replay(ctx, v):
    c = v["case"]["call"]
    out = ctx.run_impl("c03", [dict(id=0, calls=[c])], nproc=1)
    evs = out[0]["events"]
    for e in evs:
        e.pop("kind", None)
    bad = ctx.validate_trace("Batching_Trace", "Batching_Trace.cfg", evs)
    if bad:
        print("VIOLATION property=C03 replay=(replayed) clause=%s" % bad[0][1])
        return 1
    print("replay: trace accepted")
    return 0

"""C06 — batch-size / co-batch / order independence of deep_lift_shap (DLSBook.tla; DLSBook_Trace)."""
import copy
import itertools
import random
import threading

from .. import core

RULE = ("Design model: DLSBook.tla (Fill / Flush / Drain) model-checked for every (N, S, B) of the scope: each example is emitted "
        "from exactly its own S pairs in order, once, in input order; shuffle j always uses seed random_state+j; termination. "
        "Binding: a recording exact-integer model and a recording reference generator (example and (example, shuffle) identities "
        "encoded in the sequences) log every reference call and every forward; DLSBook_Trace pushes each recorded call through "
        "the model's actions (batch composition, seeds, arg alignment) and keeps memo[(example, key)] = first result digest, which "
        "every later call with another batch size / subset / permutation must reproduce bit-identically. Driver: all batch sizes "
        "1..N*S+1, all subsets and permutations of <= 3-4 examples, raw/processed/hypothetical, return_references, reference "
        "function with integer random_state and explicit reference tensor, with and without args. distinct_nontrivial = calls "
        "whose batch size does not divide S or N*S, or whose example list is a proper subset / non-identity permutation.")
EXHAUSTIVE = True


def run(ctx):
    ctx.model_check("DLSBook", "DLSBook_MC_quick.cfg" if ctx.quick else "DLSBook_MC_thorough.cfg", coverage=True)
    rng = random.Random(ctx.seed)
    pool = [rng.randrange(1, 200) for _ in range(4)]
    while len(set(pool)) < 4:
        pool = [rng.randrange(1, 200) for _ in range(4)]
    calls = []
    cid = 1
    flagsets = [(False, False, False), (True, False, False), (False, True, True)] if ctx.quick else \
        [(r, h, rr) for r in (False, True) for h in (False, True) for rr in (False, True)]
    key = 0
    for (raw, hyp, retrefs) in flagsets:
        for refmode in ("fn", "tensor"):
            for S in ((1, 2, 3) if ctx.quick else (1, 2, 3, 4)):
                for withargs in (False, True):
                    key += 1
                    R = rng.randrange(0, 6)
                    target = rng.randrange(2)
                    maxk = 3 if ctx.quick else 4
                    lists = []
                    for k in range(1, maxk + 1):
                        for sub in itertools.combinations(pool[:maxk], k):
                            perms = list(itertools.permutations(sub))
                            if ctx.quick and k == 3:
                                perms = perms[:3]
                            lists += perms
                    for exl in lists:
                        n = len(exl)
                        bss = range(1, n * S + 2)
                        if ctx.quick and len(bss) > 4:
                            bss = sorted(set([1, S, n * S, n * S + 1] + rng.sample(list(bss), 2)))
                        for B in bss:
                            c = dict(ex=list(exl), S=S, B=B, R=R, refmode=refmode, key=key, args=withargs, raw=raw, hyp=hyp,
                                     retrefs=retrefs, target=target)
                            calls.append((cid, c)); cid += 1
                            if (n * S) % B or S % B or list(exl) != sorted(pool[:maxk])[:n]:
                                ctx.nontrivial(cid)
    # observable lane: the real dinucleotide_shuffle generator with an integer random_state
    for (raw, hyp) in ((False, False), (True, False)):
        for S in (2, 3):
            key += 1
            R = rng.randrange(0, 50)
            for k in range(1, 4):
                for sub in itertools.combinations(pool[:3], k):
                    for exl in list(itertools.permutations(sub))[:3]:
                        for B in sorted({1, S, len(exl) * S, len(exl) * S + 1, 2}):
                            calls.append((cid, dict(obs=True, ex=list(exl), S=S, B=B, R=R, key=key, raw=raw, hyp=hyp, target=0))); cid += 1
    shards = core.NCPU
    # one memo per trace file: calls with the same key must stay in one shard
    parts = [[] for _ in range(shards)]
    for (i, c) in calls:
        parts[c["key"] % shards].append((i, c))
    out = ctx.run_impl("c06", [dict(id=k, calls=parts[k]) for k in range(shards)], nproc=shards, timeout_s=3000 if ctx.quick else 9000, env=dict(VERIF_CASE_TIMEOUT=900 if ctx.quick else 3000))
    traces = []
    for k in range(shards):
        if out[k].get("st") in ("crashed", "timeout"):
            ctx.violation("M2", "a call made by the driver %s" % ("did not terminate" if out[k]["st"] == "timeout" else "crashed the interpreter"),
                          dict(mode="shard", shard=k), cls=out[k]["st"])
            out[k] = {"events": [], "hists": []}
        t = out[k]["events"]
        for e in t:
            e.pop("msg", None)
        traces.append(t)
    # negative controls appended to shard 0: wrong seed, wrong pairing, and a digest that differs from the memo
    neg = []
    host = 0
    for hk in range(shards):
        grp, groups = [], []
        for e in traces[hk]:
            if e["ev"] == "call":
                grp = []
            grp.append(e)
            if e["ev"] == "return":
                groups.append(grp)
        fn = [g for g in groups if g[0]["ev"] == "call" and g[0]["refmode"] == "fn" and g[-1]["st"] == "ok" and len(g[0]["ex"]) >= 2]
        if fn:
            host = hk
            g = copy.deepcopy(fn[0]); g[0]["id"] = -1
            k = [j for j, e in enumerate(g) if e["ev"] == "ref"][-1]; g[k]["seed"] += 1; neg += g
            g = copy.deepcopy(fn[0]); g[0]["id"] = -2
            k = [j for j, e in enumerate(g) if e["ev"] == "forward"][0]; g[k]["r"][0][0] += 1; neg += g
            g = copy.deepcopy(fn[0]); g[0]["id"] = -3
            g[-1]["dig"][0] = (g[-1]["dig"][0] + 1) % 1000; neg += g
            break
    traces[host] = traces[host] + neg
    bads = [None] * shards
    errs = []

    def go(k):
        try:
            bads[k] = ctx.validate_trace("DLSBook_Trace", "DLSBook_Trace.cfg", traces[k], tag="-%d" % k, timeout_s=3000) if traces[k] else []
        except Exception as ex:  # noqa
            errs.append(ex)
    th = [threading.Thread(target=go, args=(k,)) for k in range(shards)]
    [t.start() for t in th]; [t.join() for t in th]
    if errs:
        raise errs[0]
    bad = [b for bb in bads for b in bb]
    ctx.cov["traces_validated_against_impl"] -= len(neg)
    ctx.negative_control("wrong seed / wrong pairing / differing digest must be rejected", {b[0] for b in bad if b[0] < 0} == {-1, -2, -3})
    byid = dict(calls)
    for (i, clause) in bad:
        if i < 0:
            continue
        c = byid[i]
        ctx.violation("M2", "deep_lift_shap(examples=%s, n_shuffles=%d, batch_size=%d, %s): %s" % (c["ex"], c["S"], c["B"], c.get("refmode", "dinucleotide_shuffle"), clause),
                      dict(mode="call", call=c), cls=clause)
    ctx.cov["evaluations"] += len(calls)
    ctx.lane("M2", calls=len(calls), events=sum(len(t) for t in traces), rejected=len([b for b in bad if b[0] > 0]))
    ctx.sample(dict(lane="M2", trace=[e for e in traces[1][:7]]))
    ctx.assumptions += ["torch.nn.Tanh.forward is replaced by z*z in the worker so that multipliers are integers and float64 results "
                        "are bit-exact whatever the batch composition", "device='cpu'"]


def replay(ctx, v):
    c = v["case"]["call"]
    out = ctx.run_impl("c06", [dict(id=0, calls=[(1, c)])], nproc=1)
    evs = out[0]["events"]
    for e in evs:
        e.pop("msg", None)
    bad = ctx.validate_trace("DLSBook_Trace", "DLSBook_Trace.cfg", evs)
    if bad:
        print("VIOLATION property=C06 replay=(replayed) clause=%s" % bad[0][1])
        return 1
    print("replay: trace accepted (memo-based clauses need the full check)")
    return 0

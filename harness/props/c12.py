"""C12 — FIMO scan (FimoOps / FimoScan / FimoScan_Trace)."""
import copy

from .. import std

RULE = ("Design model: FimoScan.tla — for every motif of the exact lane (columns = permutations of log-odds (1,0,-1,-1); widths 2-3), "
        "every sequence up to MaxSeq (incl. shorter than the motif, optionally with N) and two p-value thresholds: hit set from the "
        "definition (every start 0..L-w, both strands, score, tail count), MirrorLaw (reverse-complemented sequence gives the "
        "mirror image), EveryWindow, FieldsOK, and agreement of the DP tail with enumeration. M1: every such case through fimo() "
        "(tensor and FASTA input, dim=0/1, return_counts, 1/2/all threads). M2: random and planted sequences (motif planted at 0 "
        "and L-w), 1-4 motifs of width 2-7, bin sizes 1, 1/2, 1/4, thresholds that are / are not attainable tail probabilities, several sequences of different lengths, N characters. "
        "distinct_nontrivial = cases with a specified hit at start 0 or L-w.")
EXHAUSTIVE = True
KEYS = ("motifs", "seqs", "thr", "rc", "scale")


def run(ctx):
    env = dict(NUMBA_NUM_THREADS=3)
    import harness.core as core
    orig = ctx.run_impl

    def run_impl(worker, cases, **kw):       # fimo is studied under several numba thread counts
        kw.setdefault("env", {}).update(env)
        return orig(worker, cases, **kw)
    ctx.run_impl = run_impl
    # the window loop of _fast_hits, one action per window; the as-found bound range(L - w) is the spec-level mutant
    ctx.model_check("FimoLoop", "FimoLoop_MC.cfg")
    ctx.spec_mutant("FimoLoop", "FimoLoop_MC_asfound.cfg", violated="EveryWindowScored")
    std.m1(ctx, "FimoScan", "FimoScan_MC_quick.cfg" if ctx.quick else "FimoScan_MC_thorough.cfg", "c12", evkeys=("op", "motif", "seq", "thr"),
           nproc=16)

    def negs(events):
        out = []
        ok = [e for e in events if e["st"] == "ok" and e["hits"]]
        if ok:
            c = copy.deepcopy(ok[0]); c["hits"] = c["hits"][1:]; out.append(c)                      # a missing hit
            c = copy.deepcopy(ok[-1]); c["hits"][0][6] += 1; out.append(c)                           # a wrong p-value
            c = copy.deepcopy(ok[len(ok) // 2]); c["hits"][0][4] = 1 - c["hits"][0][4]; out.append(c)  # wrong strand
        return out
    std.m2(ctx, "c12", "FimoScan_Trace", "FimoScan_Trace.cfg", 320 if ctx.quick else 8000, negs, shards=8, evkeys=KEYS,
           strip=("msg", "kind"))
    ctx.assumptions += ["exact lane: PWM entries 0.25*2^(k/scale), eps = 0, bin_size = 1/scale, thresholds odd/(2*4^k) (never a tie) or, for a quarter of the "
                        "recorded calls, count/4^w of an attainable bin (a tie): the event then records on which side the float table "
                        "entry fell (tielt, read from _pwm_to_mapping), and the specification's threshold bin follows it — an exact float "
                        "tie must NOT be reported (strictly below)",
                        "p-values are compared as integer tail counts p*4^w"]


def replay(ctx, v):
    return std.replay_ev(ctx, v, "c12", "FimoScan_Trace", "FimoScan_Trace.cfg")

"""C15 — codecs (CodecOps / Codec / Codec_Trace)."""
import copy

from .. import std

RULE = ("M1: TLC enumerates every string of length <= MaxS over alphabet+ignore+one foreign character for alphabets of size "
        "1..MaxA and four ignore sets (encode, encode->decode), every symbol sequence incl. all-zero columns (decode, "
        "decode->encode), every involutive complement map x every sequence (tensor and string reverse complement), and every "
        "(chunk size <= MaxSize, overlap < size, 1..MaxChunks chunks with every remainder, 1-3 sequences) for chunk/unchunk on "
        "position-coded tensors; all replayed. M2: random ASCII alphabets of size 1-8, strings to 50, chunk sizes to 40, eight dtypes. "
        "distinct_nontrivial = M1 cases with overlap>0, with ignored/foreign characters, with N columns, or RC of length>1.")
EXHAUSTIVE = True
KEYS = ("op", "str", "alphabet", "ignore", "x", "comp", "xs", "size", "ov", "longlen")


def run(ctx):
    # the slicing ALGORITHM of unchunk (head / inner / tail pieces) reassembles the covered prefix; as-found single-chunk rule = mutant
    ctx.model_check("Unchunk", "Unchunk_MC.cfg")
    ctx.spec_mutant("Unchunk", "Unchunk_MC_asfound.cfg", violated="ReassemblesCoveredPrefix")
    cfg = "Codec_MC_quick.cfg" if ctx.quick else "Codec_MC_thorough.cfg"
    std.m1(ctx, "Codec", cfg, "c15", evkeys=KEYS)

    def negs(events):
        out = []
        for op in ("encode", "unchunk", "rc_tensor"):
            ok = [e for e in events if e["op"] == op and e["st"] == "ok" and e["valid"] and e["y"]]
            if ok:
                c = copy.deepcopy(ok[0])
                y = c["y"]
                while isinstance(y[0], list):
                    y = y[0]
                y[0] += 1
                out.append(c)
        return out
    std.m2(ctx, "c15", "Codec_Trace", "Codec_Trace.cfg", 4000 if ctx.quick else 100000, negs, evkeys=KEYS,
           extra_case=dict(long=1 if ctx.quick else 3))
    extras(ctx)
    ctx.assumptions += ["chunk/unchunk are observed on position-coded tensors (value = sequence id*100 + position)",
                        "complement maps are involutions; ASCII alphabets exclude 'N' (reserved for all-zero columns)"]


def extras(ctx):
    """Beyond the listed property (growth backlog): pwm_consensus / extract_signal / random_one_hot against UtilsExtra_Trace.
    A rejected event is reported as EXTRA-FINDING (it is not a violation of C15 and does not change the exit status)."""
    from .. import core
    out = ctx.run_impl("x15", [dict(id=k, seed=ctx.seed * 31 + k, n=60 if ctx.quick else 1500) for k in range(4)], nproc=4, timeout_s=3000 if ctx.quick else 9000, env=dict(VERIF_CASE_TIMEOUT=900 if ctx.quick else 3000))
    events = []
    for k in range(4):
        if out[k].get("st") in ("crashed", "timeout"):
            print("EXTRA-FINDING: utils extras driver %s" % out[k]["st"]); continue
        events += out[k]["events"]
    for i, e in enumerate(events):
        e["id"] = i + 1
    neg = None
    for e in events:
        if e["op"] == "signal" and e["st"] == "ok":
            neg = copy.deepcopy(e); neg["id"] = -1; neg["y"][0][0] += 1
            break
    bad = ctx.validate_trace("UtilsExtra_Trace", "UtilsExtra_Trace.cfg", ([neg] if neg else []) + events, tag="-extras")
    if neg:
        ctx.cov["traces_validated_against_impl"] -= 1
        ctx.negative_control("a wrong extracted signal must be rejected by UtilsExtra_Trace", any(b[0] == -1 for b in bad))
    found = [(i, c) for (i, c) in bad if i > 0]
    for (i, c) in found[:5]:
        print("EXTRA-FINDING: (not part of C15) %s: %s" % (events[i - 1]["op"], c), flush=True)
    ctx.lane("extras", events=len(events), rejected=len(found), functions=["pwm_consensus", "extract_signal", "random_one_hot"])


def replay(ctx, v):
    return std.replay_ev(ctx, v, "c15", "Codec_Trace", "Codec_Trace.cfg")

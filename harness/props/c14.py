"""C14 — TOMTOM scores and p-values (TomtomScoreOps / TomtomScore design model / TomtomScore_Oracle)."""
from .. import core

RULE = ("Design models: TomtomNull.tla — the code's null-distribution algorithm (span pmfs by convolution, pairwise-max recursion, the three B loops) stepped loop by loop, with the theorem that the CDF it ends with equals the product over offsets of the brute-force CDFs of the definition, for every small instance; the as-found zero-bin loop violates SpanMass. TomtomScore.tla — every small similarity matrix with the specified result; laws CdfMonotone, NoDrop (the "
        "null CDF reaches 1: no mass lost), PValueRange, Alignment; DropZeroBin=TRUE (as found) must violate NoDrop. M3: random "
        "query/target sets on a k/8 PWM grid (queries shorter, equal, longer than targets; self-comparison; with and without "
        "reverse complement; n_score_bins 10-50): the integerised similarity matrix is taken from the code's own integeriser, "
        "TLC computes best score, admissible (offset, overlap, strand) set, exact p-value (brute-force enumeration of column "
        "draws, strand merge) and the monotonicity of the integeriser against exact squared distances; the implementation's "
        "score must be equal, its alignment admissible, its p-value within 1e-9. A fifth of the quick cases and half of the thorough ones have lengths up to 25 and n_score_bins up to 200 (scores and "
        "alignments only). Where the column hash is injective the same pairs are recomputed with n_target_bins=100, with the target "
        "list reversed and with reverse-complemented targets, one call after the other in the same process, and must reproduce the "
        "validated scores and p-values. distinct_nontrivial = compared (query, target) pairs whose lengths differ or that have ties.")
EXHAUSTIVE = False
TOL = 1e-9


def run(ctx):
    ctx.model_check("TomtomScore", "TomtomScore_MC_quick.cfg" if ctx.quick else "TomtomScore_MC_thorough.cfg")
    ctx.spec_mutant("TomtomScore", "TomtomScore_MC_asfound.cfg", violated="NoDrop")
    # the ALGORITHM (span pmfs by convolution, maximum by the pairwise-max recursion, the three B loops) equals the definition
    ctx.model_check("TomtomNull", "TomtomNull_MC_quick.cfg" if ctx.quick else "TomtomNull_MC_thorough.cfg", timeout_s=3000)
    ctx.spec_mutant("TomtomNull", "TomtomNull_MC_asfound.cfg", violated="SpanMass")
    nw = 4
    per = 30 if ctx.quick else 500
    gen = ctx.run_impl("c14", [dict(id=k, seed=ctx.seed * 7 + k, n=per, big=True) for k in range(nw)], nproc=nw, timeout_s=3000,
                       env=dict(VERIF_CASE_TIMEOUT=1500))
    cases = []
    for k in range(nw):
        if gen[k].get("st") in ("crashed", "timeout"):
            ctx.violation("M3", "tomtom %s" % gen[k]["st"], dict(mode="shard", seed=ctx.seed * 7 + k), cls=gen[k]["st"])
            continue
        cases += gen[k]["cases"]
    live = [c for c in cases if "skipped" not in c]
    ocases = [{k: c[k] for k in ("id", "nq", "G", "u", "tlens", "cnt", "rc", "qcols", "tcols", "checkp", "self", "V2")} for c in live]
    oracle = {o["id"]: o for o in ctx.oracle("TomtomScore_Oracle", "TomtomScore_Oracle.cfg", ocases, shards=core.NCPU, timeout_s=3000)}
    st = dict(cases=len(cases), degenerate_skipped=len(cases) - len(live), pairs=0, p_checked=0, zero_score_pairs=0, ties=0)
    for c in live:
        o = oracle[c["id"]]
        info = dict(mode="case", q=c["qcols"], targets=c["tcols"], tlens=c["tlens"], rc=c["rc"], n_score_bins=c["n_bins"], G=c["G"], u=c["u"])
        if c["st"] != "ok":
            ctx.violation("M3", "tomtom raised: %s" % c.get("msg"), info, cls="raised")
            continue
        st["rounding_ties"] = st.get("rounding_ties", 0) + o["ties"]
        if not o["rounding"]:
            ctx.violation("M3", "integerised similarity is not the nearest integer of the scaled similarity (exact ties go up)", info, cls="rounding")
        if not o["monotone"]:
            ctx.violation("M3", "integerised column similarity is not monotone in Euclidean distance", info, cls="monotone")
        if c["rc"] and not (c.get("rc_p_same", True) and c.get("rc_score_same", True)):
            ctx.violation("M3", "reverse-complementing the targets changed a score or p-value", info, cls="rc-invariance")
        st["hashed_cases"] = st.get("hashed_cases", 0) + c.get("hashed", 0)
        if not c.get("inplace_same", True):
            ctx.violation("M3", "the same target list passed again after two of its elements were swapped in place gives results of the old content", info, cls="inplace")
        for name, what in (("hash_same", "with column hashing (injective here)"), ("hash_rev_same", "with column hashing and the target list reversed"),
                           ("hash_rc_same", "with column hashing and reverse-complemented targets")):
            if not c.get(name, True):
                ctx.violation("M3", "scores / p-values %s differ from the reference-validated result of the same pairs" % what, info, cls=name)
        for t, spec in enumerate(o["per"]):
            st["pairs"] += 1
            adm = [tuple(a) for a in spec["adm"]]
            if len(adm) > 1 or c["tlens"][t] != c["nq"]:
                ctx.nontrivial((c["id"], t))
            st["ties"] += len(adm) > 1
            got = (c["score"][t], c["offset"][t], c["overlap"][t], c["strand"][t])
            if spec["score"] == 0:
                st["zero_score_pairs"] += 1
            if got[0] != spec["score"]:
                ctx.violation("M3", "target %d: score %r, complete-score maximum is %d" % (t, got[0], spec["score"]), info, cls="score")
                continue
            key = (int(got[1]), int(got[2]), int(got[3])) if all(abs(v - round(v)) < 1e-9 and abs(v) < 1e6 for v in got[1:]) else None
            if key not in adm:
                ctx.violation("M3", "target %d: reported (offset, overlap, strand) %r does not attain the best score; admissible %s" % (
                    t, got[1:], adm), info, cls="alignment" if spec["score"] > 0 else "alignment-at-score-0")
            if c["checkp"]:
                st["p_checked"] += 1
                want = spec["p"][0] / spec["p"][1]
                if spec["squared"]:          # strand merge applied to TLC's exact smaller p-value
                    want = 1.0 - (1.0 - want) ** 2
                if not (abs(c["p"][t] - want) <= TOL * max(1.0, abs(want))):
                    ctx.violation("M3", "target %d: p-value %r, exact null gives %d/%d = %r" % (t, c["p"][t], spec["p"][0], spec["p"][1], want),
                                  info, cls="p-value" if spec["score"] > 0 else "p-value-at-score-0")
        if len(ctx.cov["samples"]) < 3:
            ctx.sample(dict(lane="M3", q=c["qcols"], tlens=c["tlens"], rc=c["rc"], G=c["G"], u=c["u"], specified=o["per"],
                            observed=dict(p=c["p"], score=c["score"], offset=c["offset"], overlap=c["overlap"], strand=c["strand"])))
    ctx.cov["evaluations"] += len(live)
    ctx.cov["traces_validated_against_impl"] += st["pairs"]
    ctx.lane("M3", **st)
    # negative control: the as-found null (zero bin dropped) must disagree with the specification on some case that has a zero entry
    zc = [oc for oc in ocases if oc["checkp"] and any(0 in row for row in oc["G"])][:6]
    if zc:
        alt = {o["id"]: o for o in ctx.oracle("TomtomScore_Oracle", "TomtomScore_Oracle_asfound.cfg", zc, shards=1, tag="-neg")}
        differs = any(alt[i]["per"][t]["p"] != oracle[i]["per"][t]["p"] for i in alt for t in range(len(alt[i]["per"])))
        ctx.negative_control("the oracle with the zero bin dropped must give a different p-value on inputs with a zero similarity", differs)
    ctx.assumptions += ["G and the unaligned score u are taken from the code's own integeriser, as the property allows; hashing disabled",
                        "exact p-values for nq, nt <= 3 and at most 7 pooled columns (32-bit rationals); longer motifs: scores and alignments",
                        "inputs where all similarities of a query column are equal make the integeriser divide by zero and are skipped (counted)"]
    extras(ctx)


def extras(ctx):
    """Beyond the listed property: symmetric_tomtom.  SymIndex.tla (design model of which comparison lands in which cell; the
    `<` skip rule is the spec-level mutant) and SymTomtom_Trace (recorded results against tomtom(Xs, Xs)).  A rejected event is
    an EXTRA-FINDING: it never changes the exit status of C14."""
    import copy
    ctx.model_check("SymIndex", "SymIndex_MC.cfg")
    ctx.spec_mutant("SymIndex", "SymIndex_MC_mutant.cfg", violated="DiagonalNeutral")
    out = ctx.run_impl("x14", [dict(id=k, seed=ctx.seed * 13 + k, n=8 if ctx.quick else 100) for k in range(4)], nproc=4, timeout_s=600,
                       env=dict(VERIF_CASE_TIMEOUT=240))
    events = []
    for k in range(4):
        if out[k].get("st") in ("crashed", "timeout"):
            print("EXTRA-FINDING: (not part of C14) symmetric_tomtom driver %s" % out[k]["st"], flush=True); continue
        events += out[k]["events"]
    for i, e in enumerate(events):
        e["id"] = i + 1
    ok = [e for e in events if e["st"] == "ok" and len(e["lens"]) > 1]
    neg = None
    if ok:
        neg = copy.deepcopy(ok[0]); neg["id"] = -1; neg["sym"][0][1][1] += 1
    bad = ctx.validate_trace("SymTomtom_Trace", "SymTomtom_Trace.cfg", ([neg] if neg else []) + events, tag="-extras")
    if neg:
        ctx.cov["traces_validated_against_impl"] -= 1
        ctx.negative_control("a wrong symmetric_tomtom score must be rejected by SymTomtom_Trace", any(b[0] == -1 for b in bad))
    found = [(i, c) for (i, c) in bad if i > 0]
    classes = {}
    for (i, c) in found:
        classes.setdefault(c, []).append(i)
    for c, ids in sorted(classes.items()):
        e = events[ids[0] - 1]
        print("EXTRA-FINDING: (not part of C14) symmetric_tomtom: %s (%d of %d motif lists; e.g. lengths %s, %s PWMs, n_score_bins %d, rc %s)" % (
            c, len(ids), len(events), e["lens"], "k/8-grid" if e["grid"] else "Dirichlet", e["bins"], e["rc"]), flush=True)
    ctx.lane("extras", events=len(events), rejected=len(found), functions=["symmetric_tomtom"], classes={c: len(v) for c, v in classes.items()})


def replay(ctx, v):
    print("replay: re-run the check (cases are regenerated from the seed)")
    return 2

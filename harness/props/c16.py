"""C16 — loading: read_meme (Meme.tla parser FSM) and extract_loci (LociOps / Loci / Loci_Trace)."""
import copy

from .. import core, std

RULE = ("read_meme: Meme.tla builds every valid layout with <= MaxMotifs motifs (widths <= MaxW, optional blank lines before / "
        "inside / after a block, optional URL line) and parses it line by line; AllMotifs / PrefixAlways / termination checked; "
        "the as-found commit rule is the spec-level mutant. M1: every layout rendered to a real file (LF/CRLF, trailing spaces, "
        "final newline or not, random probabilities, n_motifs cap) and read by read_meme. extract_loci: Loci.tla enumerates every "
        "(start,end) on a short chromosome x in/out windows x jitter x signals, interleaved sets of unequal length, n_loci, "
        "chromosome filter and count filters; every call is executed with in-memory arrays and with FASTA/bigWig/BED files and "
        "explained by Loci_Trace (must-keep / may-omit zones, exact bases and position-coded signal values, order); M2: random "
        "genomes with lower-case and N runs. distinct_nontrivial = layouts with several motifs or ending in a matrix row, and "
        "locus calls with an edge-touching locus or several sets.")
EXHAUSTIVE = True
KEYS = ("genome", "sets", "allowed", "inw", "outw", "jit", "minc", "maxc", "nloci", "sig", "insig", "gaps")


def run(ctx):
    std.m1(ctx, "Meme", "Meme_MC_quick.cfg" if ctx.quick else "Meme_MC_thorough.cfg", "c16", extra=dict(mode="meme"),
           marker="build = FALSE", evkeys=("op", "layout", "text"))
    ctx.spec_mutant("Meme", "Meme_MC_asfound.cfg", violated="AllMotifs")
    cases, res, carry = std.m1(ctx, "Loci", "Loci_MC_quick.cfg" if ctx.quick else "Loci_MC_thorough.cfg", "c16", evkeys=KEYS)
    facts = [e for (_, e) in carry]

    def negs(events):
        out = []
        ok = [e for e in events if e["st"] == "ok" and e["valid"] and e["mem"]["seqs"] and e["mem"]["seqs"][0]]
        if ok:
            c = copy.deepcopy(ok[0]); c["mem"]["seqs"][0][0] = (c["mem"]["seqs"][0][0] + 1) % 4; out.append(c)
        ok = [e for e in events if e["st"] == "ok" and e["valid"] and e["sig"] and e["mem"]["sigs"]]
        if ok:
            c = copy.deepcopy(ok[-1]); c["mem"]["sigs"][0] = [v + 1 for v in c["mem"]["sigs"][0]]; out.append(c)
        ok = [e for e in events if e["st"] == "ok" and e["valid"] and len(e["mem"]["seqs"]) >= 2 and e["mem"]["seqs"][0] != e["mem"]["seqs"][1]]
        if ok:
            c = copy.deepcopy(ok[0])
            for k in ("seqs", "sigs", "insigs"):
                if len(c["mem"][k]) >= 2:
                    c["mem"][k][0], c["mem"][k][1] = c["mem"][k][1], c["mem"][k][0]
            out.append(c)
        return out
    std.m2(ctx, "c16", "Loci_Trace", "Loci_Trace.cfg", 400 if ctx.quick else 12000, negs, extra_events=facts, evkeys=KEYS,
           strip=("msg", "op", "variant", "kind"))
    ctx.assumptions += ["genomes are symbol sequences with N; signals are position-coded (1000*chromosome + position) so that "
                        "returned values decode to coordinates; bigWig float32 holds these integers exactly",
                        "a window that only touches a chromosome end may be kept or omitted ('either')",
                        "motif names are compared after stripping trailing whitespace"]


def replay(ctx, v):
    if v["case"].get("mode") == "ev":
        return std.replay_ev(ctx, v, "c16", "Loci_Trace", "Loci_Trace.cfg")
    print("replay: read_meme layouts are re-checked by re-running the check")
    return 2

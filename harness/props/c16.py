"""C16 — loading: read_meme (Meme.tla parser FSM) and extract_loci (LociOps / Loci / Loci_Trace)."""
import copy

from .. import core, std

RULE = ("read_meme: Meme.tla builds every valid layout with <= MaxMotifs motifs (widths <= MaxW, optional blank lines before / "
        "inside / after a block, optional URL line) and parses it line by line; AllMotifs / PrefixAlways / termination checked; "
        "the as-found commit rule is the spec-level mutant. M1: every layout rendered to a real file (LF/CRLF, trailing spaces, "
        "final newline or not, random probabilities, n_motifs cap) and read by read_meme. extract_loci: Loci.tla enumerates every "
        "(start,end) on a short chromosome x in/out windows x jitter x signals, interleaved sets of unequal length, n_loci, "
        "chromosome filter and count filters; every call is executed with in-memory arrays and with FASTA/bigWig/BED files and "
        "explained by Loci_Trace (must-keep / may-omit zones, exact bases and position-coded signal values, order); M2: random "
        "genomes with lower-case and N runs. distinct_nontrivial = layouts with several motifs or ending in a matrix row, and "
        "locus calls with an edge-touching locus or several sets.")
EXHAUSTIVE = True
KEYS = ("genome", "sets", "allowed", "inw", "outw", "jit", "minc", "maxc", "nloci", "sig", "insig", "gaps")


def run(ctx):
    std.m1(ctx, "Meme", "Meme_MC_quick.cfg" if ctx.quick else "Meme_MC_thorough.cfg", "c16", extra=dict(mode="meme"),
           marker="build = FALSE", evkeys=("op", "layout", "text"))
    ctx.spec_mutant("Meme", "Meme_MC_asfound.cfg", violated="AllMotifs")
    cases, res, carry = std.m1(ctx, "Loci", "Loci_MC_quick.cfg" if ctx.quick else "Loci_MC_thorough.cfg", "c16", evkeys=KEYS)
    facts = [e for (_, e) in carry]

    def negs(events):
        out = []
        ok = [e for e in events if e["st"] == "ok" and e["valid"] and e["mem"]["seqs"] and e["mem"]["seqs"][0]]
        if ok:
            c = copy.deepcopy(ok[0]); c["mem"]["seqs"][0][0] = (c["mem"]["seqs"][0][0] + 1) % 4; out.append(c)
        ok = [e for e in events if e["st"] == "ok" and e["valid"] and e["sig"] and e["mem"]["sigs"]]
        if ok:
            c = copy.deepcopy(ok[-1]); c["mem"]["sigs"][0] = [v + 1 for v in c["mem"]["sigs"][0]]; out.append(c)
        ok = [e for e in events if e["st"] == "ok" and e["valid"] and len(e["mem"]["seqs"]) >= 2 and e["mem"]["seqs"][0] != e["mem"]["seqs"][1]]
        if ok:
            c = copy.deepcopy(ok[0])
            for k in ("seqs", "sigs", "insigs"):
                if len(c["mem"][k]) >= 2:
                    c["mem"][k][0], c["mem"][k][1] = c["mem"][k][1], c["mem"][k][0]
            out.append(c)
        return out
    std.m2(ctx, "c16", "Loci_Trace", "Loci_Trace.cfg", 400 if ctx.quick else 12000, negs, extra_events=facts, evkeys=KEYS,
           strip=("msg", "op", "variant", "kind"))
    ctx.assumptions += ["genomes are symbol sequences with N; signals are position-coded (1000*chromosome + position) so that "
                        "returned values decode to coordinates; bigWig float32 holds these integers exactly",
                        "a window that only touches a chromosome end may be kept or omitted ('either')",
                        "motif names are compared after stripping trailing whitespace"]
    extras(ctx)


def extras(ctx):
    """Beyond the listed property: read_vcf against Vcf_Trace.  A rejected event is an EXTRA-FINDING and never changes the exit
    status of C16."""
    import copy
    out = ctx.run_impl("x16", [dict(id=k, seed=ctx.seed * 17 + k, n=40 if ctx.quick else 600) for k in range(4)], nproc=4,
                       timeout_s=1500, env=dict(VERIF_CASE_TIMEOUT=900))
    events = []
    for k in range(4):
        if out[k].get("st") in ("crashed", "timeout"):
            print("EXTRA-FINDING: (not part of C16) read_vcf driver %s" % out[k]["st"], flush=True); continue
        events += out[k]["events"]
    for i, e in enumerate(events):
        e["id"] = i + 1; e.pop("kind", None)
    ok = [e for e in events if e["st"] == "ok" and e["rows"]]
    neg = None
    if ok:
        neg = copy.deepcopy(ok[0]); neg["id"] = -1; neg["rows"] = neg["rows"][1:] + neg["rows"][:1] if len(neg["rows"]) > 1 else []
    bad = ctx.validate_trace("Vcf_Trace", "Vcf_Trace.cfg", ([neg] if neg else []) + events, tag="-vcf")
    if neg:
        ctx.cov["traces_validated_against_impl"] -= 1
        ctx.negative_control("rows out of file order must be rejected by Vcf_Trace", any(b[0] == -1 for b in bad))
    classes = {}
    for (i, c) in bad:
        if i > 0:
            classes.setdefault(c, []).append(i)
    for c, ids in sorted(classes.items()):
        print("EXTRA-FINDING: (not part of C16) read_vcf: %s (%d of %d files)" % (c, len(ids), len(events)), flush=True)
    ctx.lane("extras", events=len(events), rejected=sum(len(v) for v in classes.values()), functions=["read_vcf"],
             classes={c: len(v) for c, v in classes.items()})


def replay(ctx, v):
    if v["case"].get("mode") == "ev":
        return std.replay_ev(ctx, v, "c16", "Loci_Trace", "Loci_Trace.cfg")
    print("replay: read_meme layouts are re-checked by re-running the check")
    return 2

"""C09 — saturation mutagenesis (ISMOps / ISM / ISM_Trace)."""
import copy

from .. import std

RULE = ("M1: TLC enumerates every window (start, end incl. negative end) of sequences of length <= MaxL over Alpha characters, "
        "1-2 examples, with/without per-example args, batch sizes {1, 3, A*L+1}, tensor and tuple outputs (raw) and "
        "int/slice/None targets x hypothetical (attribution) with the specified y0 / y_hat / attribution of the PosCoded "
        "exact-integer model; all executed. M2: random calls A 2-5, L<=30, n<=3. distinct_nontrivial = cases with a proper "
        "sub-window, a tuple model, or per-example args.")
EXHAUSTIVE = True
KEYS = ("x", "A", "args", "start", "end", "bs", "out", "T", "U", "tlo", "thi", "hyp", "raw")


def run(ctx):
    # the index arithmetic (generation order, flattening, row-major reshape, argument repetition) as a design model
    ctx.model_check("IndexMaps", "IndexMaps_MC.cfg")
    ctx.spec_mutant("IndexMaps", "IndexMaps_MC_ism_asfound.cfg", violated="ISMIndexOK")
    cfg = "ISM_MC_quick.cfg" if ctx.quick else "ISM_MC_thorough.cfg"
    std.m1(ctx, "ISM", cfg, "c09", evkeys=KEYS)

    def negs(events):
        out = []
        ok = [e for e in events if e["st"] == "ok" and e["valid"] and e["raw"]]
        if ok:
            c = copy.deepcopy(ok[0]); c["yhat"][0][0][0][0] += 1; out.append(c)
        ok = [e for e in events if e["st"] == "ok" and e["valid"] and not e["raw"]]
        if ok:
            c = copy.deepcopy(ok[0]); c["attr"][0][0][0] += 1; out.append(c)
        return out
    std.m2(ctx, "c09", "ISM_Trace", "ISM_Trace.cfg", 1200 if ctx.quick else 30000, negs, evkeys=KEYS)
    ctx.assumptions += ["the model is the PosCoded exact-integer function (harness/impl/models.py mirrors spec/ISMOps.tla F); "
                        "y0 equality cross-checks the two definitions",
                        "attributions are compared after scaling by A*|targets| (integral); float64 throughout",
                        "windows outside 0 <= start < end' <= L are 'either'"]


def replay(ctx, v):
    return std.replay_ev(ctx, v, "c09", "ISM_Trace", "ISM_Trace.cfg")

"""C13 — TOMTOM independence of threads / co-processed queries / order (TomtomSched.tla; Tomtom_Trace memo + Select)."""
import copy
import itertools
import random
import threading

from .. import core

RULE = ("Design model: TomtomSched.tla — NT threads take queries of different lengths in ANY assignment and order; every scratch "
        "region carries the query and extent of its last write; NoStaleRead, NoSharing, termination over all schedules; three "
        "spec-level mutants (shared scratch, A not reset, offset/overlap read before written) must yield counter-examples. "
        "Binding: the compiled tomtom is run for query lists that are permutations, subsets and duplications of a pool with mixed "
        "lengths (a short query after a long one on the same scratch) under 1..16 threads, with/without reverse complement and "
        "column hashing; Tomtom_Trace keeps memo[(query, configuration)] = first (solo, single-thread) row digest and requires "
        "every later row to be bit-identical; n_nearest 1..n_targets is checked against the full row (Select); annotate_seqlets "
        "likewise; the thorough tier adds the poison lane (pure-Python bodies with NaN- and 77-filled scratch). "
        "distinct_nontrivial = batch histories with at least two different query lengths.")
EXHAUSTIVE = False


def run(ctx):
    ctx.model_check("TomtomSchedMC", "TomtomSched_MC_quick.cfg" if ctx.quick else "TomtomSched_MC_thorough.cfg")
    ctx.spec_mutant("TomtomSchedMC", "TomtomSched_MC_mut_shared.cfg", violated="NoSharing")
    ctx.spec_mutant("TomtomSchedMC", "TomtomSched_MC_mut_reseta.cfg", violated="NoStaleRead")
    ctx.spec_mutant("TomtomSchedMC", "TomtomSched_MC_mut_results.cfg", violated="NoStaleRead")
    rng = random.Random(ctx.seed)
    nw = 4 if ctx.quick else 8
    nthreads = 8
    shards = [[] for _ in range(nw)]
    nseeds = nw if ctx.quick else nw * 3
    for si in range(nseeds):
        seed = ctx.seed * 1000 + si
        for (rc, tb) in ((True, 0), (False, 0), (True, 100)) if ctx.quick else ((True, 0), (False, 0), (True, 100), (False, 30)):
            calls = []
            for qi in range(6):      # solo, one thread: the reference rows
                calls.append(dict(kind="hist", seed=seed, threads=1, qidx=[qi], rc=rc, tbins=tb))
            hists = [[1, 0], [0, 1], [1, 2, 0, 4], [0, 0, 1, 1], [5, 4, 3, 2, 1, 0], [1, 1, 1, 0], [3, 1, 0, 1, 0], [3, 4, 1, 2]]
            pool = list(range(6))
            for _ in range(4 if ctx.quick else 12):
                k = rng.randint(2, 6)
                h = [rng.choice(pool) for _ in range(k)]
                hists.append(h)
            for h in hists:
                for th in ([1, 2, nthreads] if ctx.quick else [1, 2, 3, 5, nthreads]):
                    calls.append(dict(kind="hist", seed=seed, threads=th, qidx=h, rc=rc, tbins=tb, as_torch=rng.random() < 0.3,
                                      n_nearest=rng.choice([0, 1, 2, 3, 4, 7]) if not (rc and tb) else 0))
                if len({h.count(x) for x in h}) >= 1 and len(set(h)) > 1:
                    ctx.nontrivial(repr((seed, rc, tb, h)))
            if not tb:          # one-hot, low-complexity motif database (p-values of exactly 1), every n_nearest
                for nn in (1, 3, 6, 8):
                    calls.append(dict(kind="hist", seed=seed, threads=rng.choice([1, 2, nthreads]), qidx=[0, 1, 2, 3, 4, 5], rc=rc, tbins=0,
                                      onehot=True, n_nearest=nn))
            calls.append(dict(kind="annotate", seed=seed, threads=nthreads))
            if si == 0 and not tb:
                calls.append(dict(kind="many", seed=seed, threads=nthreads, rc=rc, n=7000))      # > 32767 query columns in one call
            if not ctx.quick:
                for h in ([1, 0], [0, 1, 0], [3, 2, 1, 0]):
                    calls.append(dict(kind="poison", seed=seed, qidx=h, rc=rc))
            shards[si % nw] += calls
    out = ctx.run_impl("c13", [dict(id=k, calls=shards[k]) for k in range(nw)], nproc=nw, timeout_s=3000,
                       env=dict(NUMBA_NUM_THREADS=nthreads, VERIF_CASE_TIMEOUT=1500))
    traces = []
    notes = set()
    for k in range(nw):
        if out[k].get("st") in ("crashed", "timeout"):
            ctx.violation("M1", "tomtom %s in shard %d" % (out[k]["st"], k), dict(mode="shard", shard=k), cls=out[k]["st"])
            traces.append([])
            continue
        evs = []
        for e in out[k]["events"]:
            if e["ev"] == "note":
                notes.add(e["note"])
            else:
                evs.append(e)
        traces.append(evs)
    for n in sorted(notes):
        ctx.note(n)
    nid = 1
    for t in traces:
        for e in t:
            e["id"] = nid; nid += 1
    neg = []
    host = max(range(nw), key=lambda k: len(traces[k]))
    rows = [e for e in traces[host] if e["ev"] == "row" and e["st"] == "ok"]
    if len(rows) > 8:
        c = copy.deepcopy(rows[-1]); c["id"] = -1; c["dig"] = (c["dig"] + 1) % 1000003; neg.append(c)
    sels = [e for t in traces for e in t if e["ev"] == "select" and e["n"] >= 2]
    if sels:
        c = copy.deepcopy(sels[0]); c["id"] = -2; c["idx"][0], c["idx"][1] = c["idx"][1], c["idx"][0]
        if c["sel"][0] != c["sel"][1]:
            pass
        else:
            c["sel"][0] += 1
        neg.append(c)
    traces[host] = traces[host] + neg
    bads = [None] * nw
    errs = []

    def go(k):
        try:
            bads[k] = ctx.validate_trace("Tomtom_Trace", "Tomtom_Trace.cfg", traces[k], tag="-%d" % k) if traces[k] else []
        except Exception as ex:  # noqa
            errs.append(ex)
    th = [threading.Thread(target=go, args=(k,)) for k in range(nw)]
    [t.start() for t in th]; [t.join() for t in th]
    if errs:
        raise errs[0]
    bad = [b for bb in bads for b in bb]
    ctx.cov["traces_validated_against_impl"] -= len(neg)
    if len(neg) == 2 or not getattr(ctx, "nviol", 0):
        ctx.negative_control("a differing row digest and a mismatched selection must be rejected",
                             {b[0] for b in bad if b[0] < 0} == {c["id"] for c in neg} and len(neg) == 2)
    else:
        ctx.note("negative control skipped: the implementation crashed before producing enough events")
    byid = {e["id"]: e for t in traces for e in t}
    for (i, clause) in bad:
        if i < 0:
            continue
        e = byid[i]
        ctx.violation("M1", "tomtom(queries %s, n_jobs=%s): %s" % (e.get("hist"), e.get("threads"), clause),
                      dict(mode="event", event=e), cls=clause)
    nrows = sum(1 for t in traces for e in t if e["ev"] == "row")
    ctx.cov["evaluations"] += nrows
    ctx.lane("M1", rows=nrows, selects=sum(1 for t in traces for e in t if e["ev"] == "select"),
             rejected=len([b for b in bad if b[0] > 0]), poison_rows=sum(1 for t in traces for e in t if e["ev"] == "row" and e["threads"] == 0))
    ctx.sample(dict(lane="M1", events=[{k: v for k, v in e.items() if k != "id"} for e in traces[1][:3] + traces[1][-2:]]))
    ctx.assumptions += ["the scheduler cannot be forced: thread counts, orders and duplicates are chosen, the assignment is numba's; the "
                        "model covers every assignment", "rows are compared through CRC32 of their float64 bytes (five fields)",
                        "a leftover numba thread count after a raising call is reported as a NOTE (not part of C13)"]


def replay(ctx, v):
    print("replay: re-run the check (rows are compared against memoised solo runs)")
    return 2

"""C08 — perturbation wrappers (WrappersOps / Wrappers / Wrappers_Trace)."""
import copy

from .. import std

RULE = ("M1: TLC enumerates wrapper configurations (1..MaxN examples, 1-3 model outputs of different trailing shapes, 0-2 "
        "per-example args, shared/per-example motifs, 1-3 shuffles, 1-4 annotations (deliberately != outputs), spacing grids, "
        "pairwise/product argument sets of sizes 1-3, batch sizes 1,2,4,5,32) with the value every output index must hold for "
        "the PosCoded fingerprint model; executed and compared (shuffle-based wrappers via the trace spec with the shuffles as "
        "logged facts). M2: random configurations (n<=6, 5 shuffles, 6 annotations, product sizes 4). distinct_nontrivial = "
        "configurations with several outputs, args, or more than one example.")
EXHAUSTIVE = True
KEYS = ("op", "x", "x0", "args0", "args1", "mo", "mos", "start", "end", "n", "grid", "ann", "shuf", "out", "T", "bs")


def run(ctx):
    # the index arithmetic (generation order, flattening, row-major reshape, argument repetition) as a design model
    ctx.model_check("IndexMaps", "IndexMaps_MC.cfg")
    ctx.spec_mutant("IndexMaps", "IndexMaps_MC_tile.cfg", violated="AblateArgsOK")
    cfg = "Wrappers_MC_quick.cfg" if ctx.quick else "Wrappers_MC_thorough.cfg"
    cases, res, carry = std.m1(ctx, "Wrappers", cfg, "c08", evkeys=KEYS)
    facts = [e for (_, e) in carry]

    def negs(events):
        out = []
        for op in ("ablate", "apply_product", "marginalize_annotations"):
            ok = [e for e in events if e["op"] == op and e["st"] == "ok" and e["valid"]]
            if ok:
                c = copy.deepcopy(ok[0])
                y = c["after"]
                while isinstance(y[0], list):
                    y = y[0]
                y[0] += 1
                out.append(c)
        ok = [e for e in events if e["op"] == "ablate" and e["st"] == "ok" and e["valid"] and e["end"] - e["start"] >= 2]
        if ok:   # a 'shuffle' that changes the composition must be refused as a fact
            c = copy.deepcopy(ok[0]); c["shuf"][0][0][c["start"]] = (c["shuf"][0][0][c["start"]] + 1) % 4
            out.append(c)
        return out
    def negs_all(events):
        for e in events:
            e.setdefault("isfunc", e["op"].startswith("func:"))
        out = negs([e for e in events if not e["isfunc"]])
        fe = [e for e in events if e["isfunc"] and e["st"] == "ok"]
        if fe:
            c = copy.deepcopy(fe[0]); c["fact"][0][0] = (c["fact"][0][0] + 1) % 1000003; out.append(c)
        return out
    for e in facts:
        e["isfunc"] = False
    events, bad = std.m2(ctx, "c08", "Wrappers_Trace", "Wrappers_Trace.cfg", 800 if ctx.quick else 20000, negs_all, extra_events=facts, evkeys=None,
                         strip=("kind", "msg"))
    ctx.lane("M2", func_lane_events=sum(1 for e in events if e.get("isfunc")))
    ctx.assumptions += ["model = PosCoded fingerprint (harness/impl/models.py mirrors ISMOps.F / WrappersOps.Vec)",
                        "shuffles used by ablate are logged facts obtained from ersatz.shuffle with the same seed and checked to be "
                        "shuffles of the region; func = predict"]


def replay(ctx, v):
    return std.replay_ev(ctx, v, "c08", "Wrappers_Trace", "Wrappers_Trace.cfg")

"""C17 — GC-matched background (Match.tla allocation loop, MatchOps predicates, Match_Trace)."""
import copy

from .. import std

RULE = ("Design model: Match.tla — the exact-match + nearest-bin spill loop, one action per step, for every histogram with NB bins "
        "and counts <= MaxC: conservation, bounds at every step, the four allocation predicates at termination, termination; "
        "SpillToZero=FALSE (as found) must yield the unmatched-with-background-left counter-example. M1: every histogram of the "
        "model is realised as a synthetic genome (tiles with designed GC, N and bigWig signal content, loci given with exact and "
        "with inner boundaries, decoy tiles that are N-heavy / signal-heavy / masked, unusable input loci, 1-2 chromosomes, "
        "in_window = out_window and in_window > out_window with signal only in the flanks) and extract_matching_loci's result is "
        "decided by Match_Trace (alignment, duplicates, mask, N, signal, the allocation predicates, n_jobs 1 vs 2). M2: larger "
        "random histograms over 5 bins. distinct_nontrivial = histograms that need spilling.")
EXHAUSTIVE = True
KEYS = ("loci0", "bg0", "variant")


def run(ctx):
    cases, res, carry = std.m1(ctx, "Match", "Match_MC_quick.cfg" if ctx.quick else "Match_MC_thorough.cfg", "c17",
                               marker='pc = "done"', evkeys=KEYS)
    ctx.spec_mutant("Match", "Match_MC_asfound.cfg", violated="FinalOK")
    facts = [e for (_, e) in carry if e.get("st") != "skip"]

    def negs(events):
        out = []
        ok = [e for e in events if e["st"] == "ok" and len(e["ret"]) >= 1]
        if ok:
            c = copy.deepcopy(ok[0]); c["ret"].append(list(c["ret"][0])); c["ret2"] = c["ret"]; out.append(c)        # duplicate
            c = copy.deepcopy(ok[-1]); c["ret"][0][1] += 1; c["ret"][0][2] += 1; c["ret2"] = c["ret"]; out.append(c)   # misaligned
        ok = [e for e in events if e["st"] == "ok" and len(e["ret"]) >= 1 and sum(e["loci0"]) > 0]
        if ok:
            c = copy.deepcopy(ok[0]); c["ret"] = c["ret"][1:]; c["ret2"] = c["ret"]; out.append(c)        # one bin short
        return out
    std.m2(ctx, "c17", "Match_Trace", "Match_Trace.cfg", 160 if ctx.quick else 6000, negs, extra_events=facts, evkeys=KEYS,
           strip=("msg", "kind"), jvms=8)
    ctx.assumptions += ["tile facts (GC bin, N ok, signal ok, masked, usable input) are computed from the generated genome by the "
                        "driver with integer arithmetic and handed to the trace spec as facts; in_window = 8, gc_bin_width = 0.25",
                        "masked = tiles start//w .. end//w of any input locus (a locus ending on a tile boundary touches the next tile)"]


def replay(ctx, v):
    return std.replay_ev(ctx, v, "c17", "Match_Trace", "Match_Trace.cfg")

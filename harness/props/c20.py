"""C20 — greedy design (Greedy.tla step-shaped loop with brute-force candidate set and tie branching)."""
import re

from .. import core, tlaval

RULE = ("Design model: Greedy.tla — one action per iteration over ALL (motif, position) candidates with exact integer losses; "
        "tie-branching; NeverWorse, Monotone, OnlyInWindows, IterBound, termination (also for max_iter=-1) checked by TLC over the "
        "problem family (sequences L 3-4/6, 5 motif sets incl. ones whose best placement is the last fitting position, 3-5 "
        "targets, output masks, tol in {0, 1/2, 2, 4} (thorough up to 8), max_iter 0..3 and -1). M1: for every problem the leaves of the model are "
        "the admissible results; greedy_substitution is executed on the mirrored exact-integer model and its result must be one "
        "of them with the same loss. distinct_nontrivial = problems whose admissible result differs from the start or has ties.")
EXHAUSTIVE = True


def run(ctx):
    r = ctx.model_check("GreedyMC", "Greedy_MC_quick.cfg" if ctx.quick else "Greedy_MC_thorough.cfg", dump=True, timeout_s=3000)
    blocks = ctx.dump_blocks(r, 'pc = "done"')
    pre = re.compile(r'/\\ prob = (.*?)(?=\n/\\ |\Z)', re.S)
    xre = re.compile(r'/\\ x = (.*?)(?=\n/\\ |\Z)', re.S)
    sre = re.compile(r'/\\ sl = (-?\d+)')
    groups = {}
    for b in blocks:
        p = pre.search(b).group(1).strip()
        groups.setdefault(p, set()).add((xre.search(b).group(1).strip(), int(sre.search(b).group(1))))
    cases = []
    for i, (p, fin) in enumerate(sorted(groups.items())):
        cases.append(dict(id=i, prob=p, finals=[[tlaval.parse_value(xt), s] for (xt, s) in sorted(fin)]))
    res = ctx.run_impl("c20", cases, nproc=core.NCPU, timeout_s=3000, env=dict(VERIF_CASE_TIMEOUT=10))
    nbad = 0
    for c in cases:
        o = res[c["id"]]
        if o.get("st") in ("crashed", "timeout"):
            ctx.violation("M1", "greedy_substitution did not terminate (or crashed): %s" % o.get("st"),
                          dict(mode="prob", prob=c["prob"], finals=c["finals"]), cls=o.get("st")); nbad += 1
            continue
        if o.get("nontrivial"):
            ctx.nontrivial(c["id"])
        if o["v"]:
            nbad += 1
            if o["v"].startswith("loss of the returned sequence differs"):
                ctx.suspect("model mirror mismatch (loss of the returned sequence differs from the specified one): %s" % o["ev"])
                continue
            ctx.violation("M1", "greedy_substitution: %s" % o["v"], dict(mode="prob", prob=c["prob"], finals=c["finals"],
                                                                          observed=o["ev"].get("y")), cls=o["v"][:60])
        elif "ev" in o:
            ctx.sample(dict(lane="M1", problem=o["ev"]["prob"], admissible=o["exp"]["admissible"], observed=o["ev"]["y"]), cap=3)
    ctx.cov["evaluations"] += len(cases)
    ctx.cov["traces_validated_against_impl"] += len(cases)
    ctx.lane("M1", problems=len(cases), mismatches=nbad, leaves=sum(len(c["finals"]) for c in cases))
    # negative control: a result outside the admissible set must be refused by the comparison
    c0 = dict(cases[0]); c0["id"] = 10 ** 6
    c0["finals"] = [[[(v + 1) % 4 for v in f[0]], f[1]] for f in c0["finals"]]
    o = ctx.run_impl("c20", [c0], nproc=1)[10 ** 6]
    ctx.negative_control("a shifted admissible set must make the comparison fail", bool(o.get("v") or o.get("st") in ("timeout", "crashed")))
    ctx.assumptions += ["the designed-against model is the exact-integer linear read-out Wt of spec/Greedy.tla, mirrored in "
                        "harness/impl/c20.py; the loss of the returned sequence cross-checks the mirror",
                        "two outputs, so masked means are exact in float32; tol in halves"]


def replay(ctx, v):
    c = v["case"]
    o = ctx.run_impl("c20", [dict(id=0, prob=c["prob"], finals=c["finals"])], nproc=1, env=dict(VERIF_CASE_TIMEOUT=10))[0]
    if o.get("st") in ("crashed", "timeout"):
        print("VIOLATION property=C20 replay=(replayed) clause=did not terminate")
        return 1
    if o["v"]:
        print("VIOLATION property=C20 replay=(replayed) clause=%s" % o["v"])
        return 1
    print("replay: result is admissible")
    return 0

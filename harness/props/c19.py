"""C19 — seqlets (Seqlets.tla iterative extractor; SeqletOps / Seqlet_Trace row well-formedness)."""
import copy
import re

from .. import core, std, tlaval

RULE = ("Design model: Seqlets.tla — arg-max / suppress loop over every track of length <= MaxLen with values in {-inf, 1, 2}, "
        "branching over ties: FarApart (starts never closer than the suppression radius), OnlyCandidates, SpanLength, Progress, "
        "termination. M1: every track replayed into _iterative_extract_seqlets; its output must be a leaf of the model. M2: "
        "recursive_seqlets and tfmodisco_seqlets on random integer-valued tracks (1-6 examples, length 40-200, 0-10 planted "
        "positive/negative bumps incl. at position 0 and at the end, thresholds 0.001-0.2, min/max lengths, additional_flanks "
        "0-5, window/flank grids); Seqlet_Trace decides every returned row (inside example, length bounds before flanks, exact "
        "attribution sum, p <= threshold, sorted, window+2*flank, suppression distance, input digest). distinct_nontrivial = "
        "tracks with ties or more than one seqlet (M1) and calls that returned at least one row (M2).")
EXHAUSTIVE = True
KEYS = ("op", "x", "thr1000", "minlen", "maxlen", "flanks", "window", "flank")


def run(ctx):
    for cfg, (w, f, s) in (("Seqlets_MC_quick.cfg", (2, 1, 2)), ("Seqlets_MC_quick2.cfg", (3, 0, 1))) if ctx.quick else \
            (("Seqlets_MC_thorough.cfg", (2, 1, 2)), ("Seqlets_MC_quick2.cfg", (3, 0, 1))):
        r = ctx.model_check("SeqletsMC", cfg, dump=True, timeout_s=3000)
        blocks = ctx.dump_blocks(r, 'pc = "done"')
        tre = re.compile(r'/\\ track = (.*?)(?=\n/\\ |\Z)', re.S)
        ere = re.compile(r'/\\ emitted = (.*?)(?=\n/\\ |\Z)', re.S)
        groups = {}
        for b in blocks:
            groups.setdefault(tre.search(b).group(1).strip(), set()).add(ere.search(b).group(1).strip())
        cases = [dict(id=i, mode="iter", track=t, leaves=[tlaval.parse_value(e) for e in sorted(em)], window=w, flank=f, supp=s)
                 for i, (t, em) in enumerate(sorted(groups.items()))]
        res = ctx.run_impl("c19", cases, nproc=core.NCPU)
        nbad = 0
        for c in cases:
            o = res[c["id"]]
            if o.get("st") in ("crashed", "timeout"):
                ctx.violation("M1", "_iterative_extract_seqlets %s" % o["st"], dict(mode="iter", track=c["track"]), cls=o["st"]); nbad += 1
                continue
            if o.get("nontrivial"):
                ctx.nontrivial(("iter", cfg, c["id"]))
            if o["v"]:
                nbad += 1
                ctx.violation("M1", "iterative extraction on track %s: %s" % (c["track"], o["v"]),
                              dict(mode="iter", track=c["track"], leaves=c["leaves"], observed=o["ev"]["y"]), cls=o["v"][:50])
            elif "ev" in o:
                ctx.sample(dict(lane="M1", track=o["ev"]["track"], admissible=o["exp"]["leaves"], observed=o["ev"]["y"]), cap=2)
        ctx.cov["evaluations"] += len(cases); ctx.cov["traces_validated_against_impl"] += len(cases)
        ctx.lane("M1-" + cfg, tracks=len(cases), mismatches=nbad)

    def negs(events):
        out = []
        ok = [e for e in events if e["st"] == "ok" and e["op"] == "recursive" and e["rows"]]
        if ok:
            c = copy.deepcopy(ok[0]); c["rows"][0]["attr"] += 1; out.append(c)
            c = copy.deepcopy(ok[-1]); c["rows"][0]["end"] = len(c["x"][0]) + 1; out.append(c)
        ok = [e for e in events if e["st"] == "ok" and e["op"] == "tfmodisco" and e["rows"]]
        if ok:
            c = copy.deepcopy(ok[0]); c["rows"][0]["start"] += 1; out.append(c)
        return out
    events, bad = std.m2(ctx, "c19", "Seqlet_Trace", "Seqlet_Trace.cfg", 240 if ctx.quick else 6000, negs, evkeys=KEYS,
                         strip=("msg", "kind", "variant"))
    for e in events:
        if e["st"] == "ok" and e["rows"]:
            ctx.nontrivial(("m2", e["id"]))
    ctx.lane("M2", raised=sum(1 for e in events if e["st"] != "ok"), rows=sum(len(e["rows"]) for e in events),
             rows_at_start0=sum(1 for e in events for r in e["rows"] if r["start"] == 0))
    if not ctx.quick:
        from .. import suite
        suite.suite_lane(ctx, ["tests/test_seqlet.py"], ["seqlet."], clauses=("tensor",), workers=2)
    ctx.assumptions += ["tracks are integer-valued so attribution sums are exact in float32/float64",
                        "a raise (e.g. the TF-MoDISco caller on degenerate tracks) is counted, not judged: the statements concern returned rows",
                        "p-values are abstracted to 'p <= threshold' and their dense rank"]


def replay(ctx, v):
    if v["case"].get("mode") == "ev":
        return std.replay_ev(ctx, v, "c19", "Seqlet_Trace", "Seqlet_Trace.cfg")
    print("replay: re-run the check")
    return 2

"""C04 — DeepLIFT/SHAP completeness (DeepLiftOps / DeepLift_Oracle: exact rational forward values; SumToDelta theorem)."""
from .. import dlcheck

RULE = ("M3: seeded random sequential networks (Conv1d with stride/dilation/padding, Linear, Flatten, AvgPool1d, MaxPool1d, native "
        "ReLU/ReLU6/LeakyReLU/PReLU/RReLU/Softshrink and ELU/Tanh/Sigmoid/GELU/SiLU/Softplus/Mish/SELU/CELU/LogSigmoid with their "
        "forward replaced by an exact polynomial; integer weights, optional 2^-k first-layer scale), one-hot inputs, explicit and "
        "dinucleotide-shuffled references, random targets/batch sizes. TLC evaluates the exact forward values (and asserts the "
        "SumToDelta theorem of the specified rule at every layer); the harness compares the implementation's per-pair "
        "sum((x-ref)*multipliers) and the attribution total against them (rel. 1e-8) and requires no RuntimeWarning. "
        "distinct_nontrivial = networks with at least one activation or max-pool.")
EXHAUSTIVE = False


def run(ctx):
    ctx.model_check("DeepLiftMC", "DeepLift_MC_quick.cfg" if ctx.quick else "DeepLift_MC_thorough.cfg")
    dlcheck.run_lane(ctx, 150 if ctx.quick else 3000, "C04")
    ctx.assumptions += ["float64 model; tolerance 1e-8 relative against TLC's exact rationals",
                        "transcendental activation classes are exercised through an exact polynomial forward (their float rounding is "
                        "outside TLA+); max-pool windows do not overlap; |delta_in| is either 0 or >= 2^-16 (outside the 1e-6 band)"]


def replay(ctx, v):
    print("replay: re-run the check (cases are regenerated from the seed)")
    return 2

"""C07 — model life-cycle (ModelLife.tla step-shaped model with crash points and histories; ModelLife_Trace)."""
import copy
import random
import threading

from .. import core, tlaval

RULE = ("Design model: ModelLife.tla — every API function as a program of plain (predict) and hooked (deep_lift_shap) runs, one "
        "action per code step, a crash point at every (run, step kind, batch); ExitClean / StartsClean / CrashHonoured / "
        "termination checked over all histories of MaxCalls calls; the as-found handler coverage must yield the ExitClean "
        "counter-example. M1: every (function, crash point) of the state graph is injected into the real code (k-th forward, "
        "k-th reference call, k-th backward rule, failing hook registration, short args, int X, bad target, tripping projection) "
        "and every TLC-explored history (sampled in the quick tier) runs on a shared model and on fresh copies; ModelLife_Trace "
        "pushes each recorded call through the model's actions and compares hooks / state_dict / probe outputs and gradients / "
        "results. distinct_nontrivial = distinct histories containing at least one injected failure.")
EXHAUSTIVE = False


def run(ctx):
    r = ctx.model_check("ModelLifeMC", "ModelLife_MC_quick.cfg" if ctx.quick else "ModelLife_MC_thorough.cfg", dump=True,
                        timeout_s=3000)
    ctx.spec_mutant("ModelLifeMC", "ModelLife_MC_asfound.cfg", violated="ExitClean")
    blocks = ctx.dump_blocks(r, None)
    maxcalls = 2
    hists = {}
    singles = {}
    import re
    seen = set()
    hre = re.compile(r'/\\ hist = (.*?)(?=\n/\\ |\Z)', re.S)
    nre = re.compile(r'/\\ ncalls = (\d+)')
    for b in blocks:
        if 'pc = "returned"' not in b and 'pc = "raised"' not in b:
            continue
        txt = hre.search(b).group(1)
        if txt in seen:
            continue
        seen.add(txt)
        nc = int(nre.search(b).group(1))
        h = tuple((c[0], tuple(c[1])) for c in tlaval.parse_value(txt))
        if len(h) == 1:
            singles[h] = 1
        if nc == maxcalls:
            hists[h] = 1
    singles = sorted(singles)
    full = sorted(hists)
    rng = random.Random(ctx.seed)
    exhaustive = not ctx.quick and len(full) <= 40000
    if not exhaustive:
        k = 700 if ctx.quick else 40000
        full = rng.sample(full, min(k, len(full)))
    allh = [list(h) for h in singles] + [list(h) for h in full]
    if not ctx.quick:
        # longer histories (3 and 4 calls): compositions of the explored single calls -- StartsClean / ExitClean make every call
        # start from the same abstract state, so any sequence of explored calls is a behaviour of the model
        for _ in range(6000):
            allh.append([rng.choice(singles)[0] for _ in range(rng.choice([3, 3, 4]))])
    # dry run: the PROGRAMS mirror in the worker must agree with the code (and with the spec's table)
    dry = ctx.run_impl("c07", [dict(id=0, mode="dry")], nproc=1)[0]["dry"]
    for f, d in dry.items():
        if d["out"] != "returned" or d["counts"].get("forward", 0) != d["want_forward"] or \
                d["counts"].get("backward", 0) != d["want_backward"]:
            ctx.suspect("program table out of date for %s: %s" % (f, d))
    chunk = 40
    parts = [allh[k:k + chunk] for k in range(0, len(allh), chunk)]
    shards = len(parts)
    out = ctx.run_impl("c07", [dict(id=k, mode="hist", hists=[[[f, list(cp)] for (f, cp) in h] for h in parts[k]])
                               for k in range(shards)], nproc=core.NCPU, timeout_s=3000, env=dict(VERIF_CASE_TIMEOUT=600))
    events, unreal, nid = [], {}, 1
    meta = {}
    for k in range(shards):
        if out[k].get("st") in ("crashed", "timeout"):
            ctx.violation("M2", "a call made by the driver %s" % ("did not terminate" if out[k]["st"] == "timeout" else "crashed the interpreter"),
                          dict(mode="shard", shard=k), cls=out[k]["st"])
            out[k] = {"events": [], "hists": []}
        for h, evs in zip(parts[k], out[k]["hists"]):
            first = True
            for e in evs:
                if not e["realised"]:
                    unreal[(e["func"], tuple(e["crash"]))] = 1
                    continue
                e = dict(e); e["id"] = nid; e["first"] = first; first = False
                e.pop("counts", None); e.pop("realised", None)
                meta[nid] = h
                nid += 1
                events.append(e)
            if any(cp[1] != "none" for (_, cp) in h):
                ctx.nontrivial(repr(h))
    # negative controls
    neg = []
    okev = [e for e in events if e["out"] == "returned"]
    if okev:
        c = copy.deepcopy(okev[0]); c["id"] = -1; c["hooks"] = 3; neg.append(c)
        c = copy.deepcopy(okev[-1]); c["id"] = -2; c["res"] = (c["res"] + 1) % 1000; neg.append(c)
    jv = 8
    chunks = [[] for _ in range(jv)]
    # keep histories together (events of one history are consecutive)
    cur = -1
    for e in events:
        if e["first"]:
            cur = (cur + 1) % jv
        chunks[cur].append(e)
    chunks[0] = neg + chunks[0]
    bads = [None] * jv
    errs = []

    def go(k):
        try:
            bads[k] = ctx.validate_trace("ModelLife_Trace", "ModelLife_Trace.cfg", chunks[k], tag="-%d" % k, timeout_s=3000)
        except Exception as ex:  # noqa
            errs.append(ex)
    th = [threading.Thread(target=go, args=(k,)) for k in range(jv)]
    [t.start() for t in th]; [t.join() for t in th]
    if errs:
        raise errs[0]
    bad = [b for bb in bads for b in bb]
    ctx.cov["traces_validated_against_impl"] -= len(neg)
    ctx.negative_control("an event with leftover hooks / a differing result must be rejected", {b[0] for b in bad if b[0] < 0} == {-1, -2})
    byid = {e["id"]: e for e in events}
    for (i, clause) in bad:
        if i < 0:
            continue
        e = byid[i]
        if clause.startswith("the injected failure did not surface") and e["hooks"] > 0:
            clause = "forward/backward hooks were left on the model (and masked a later registration failure)"
        elif clause.startswith("crash point unknown") or (clause.startswith("the injected failure did not surface")
                                                          and e["out_fresh"] != "raised"):
            raise core.Machinery("crash injection failed for %s %s: %s" % (e["func"], e["crash"], clause))
        ctx.violation("M1", "%s with crash point %s (history %s): %s" % (e["func"], e["crash"], meta[i], clause),
                      dict(mode="hist", hist=[[f, list(cp)] for (f, cp) in meta[i]]), cls="%s/%s/%s" % (e["func"], e["crash"][1], clause))
    ctx.cov["evaluations"] += len(allh)
    ctx.cov["exhaustive"] = exhaustive
    ctx.lane("M1", histories=len(allh), single_call_crash_points=len(singles), events=len(events), rejected=len([b for b in bad if b[0] > 0]),
             unrealisable_crash_points=sorted("%s %s" % (f, list(cp)) for (f, cp) in unreal))
    ctx.sample(dict(lane="M1", history=allh[len(singles) + 1], events=[e for e in events if meta[e["id"]] == allh[len(singles) + 1]][:3]))
    from .. import suite
    files = ["tests/test_predict.py"] if ctx.quick else ["tests/test_predict.py", "tests/test_deep_lift_shap.py", "tests/test_ism.py",
        "tests/test_marginalize.py", "tests/test_ablate.py", "tests/test_space.py", "tests/test_variant_effect.py", "tests/test_product.py"]
    suite.suite_lane(ctx, files, None, clauses=("model",), workers=2 if ctx.quick else 6)
    ctx.assumptions += ["crash points 'accumulate', and slice/reqgrad/delta outside the first batch of the first run, cannot be "
                        "injected through the public API and are reported as unrealisable (listed in the evidence)",
                        "model state = hook tables of all sub-modules, CRC32 of state_dict bytes, output and torch.autograd.grad "
                        "digests on a fixed probe batch in eval mode; `training` may change to eval (allowed)"]


def replay(ctx, v):
    h = v["case"]["hist"]
    out = ctx.run_impl("c07", [dict(id=0, mode="hist", hists=[h])], nproc=1)
    evs = []
    first = True
    for i, e in enumerate(out[0]["hists"][0]):
        if e["realised"]:
            e = dict(e); e["id"] = i + 1; e["first"] = first; first = False
            e.pop("counts", None); e.pop("realised", None)
            evs.append(e)
    bad = ctx.validate_trace("ModelLife_Trace", "ModelLife_Trace.cfg", evs)
    if bad:
        print("VIOLATION property=C07 replay=(replayed) clause=%s" % bad[0][1])
        return 1
    print("replay: history accepted")
    return 0

"""Runs the repository's own tests under the recorder (harness/recorder/verif_rec.py) in a scratch copy of /repo and validates
every recorded call against Session_Trace (frame conditions of Session.tla)."""
import glob
import json
import os
import shutil
import subprocess
import tempfile

from . import core


def run_suite(ctx, test_files, fn_prefixes=None, timeout_s=3000, workers=6):
    scratch = tempfile.mkdtemp(prefix="verif-suite-")
    rec = os.path.join(scratch, "_rec")
    try:
        subprocess.run(["rsync", "-a", "--exclude", ".git", "--exclude", "__pycache__", core.REPO + "/", scratch + "/repo/"], check=True)
        env = dict(os.environ)
        env.update(TANGERMEME_VERIF="1", VERIF_REC_DIR=rec, PYTHONPATH=os.path.join(core.VERIF, "harness", "recorder") + os.pathsep + scratch + "/repo",
                   NUMBA_CACHE_DIR=os.path.join(core.VERIF, ".cache", "numba"), OMP_NUM_THREADS="2", MKL_NUM_THREADS="2")
        cmd = ["timeout", str(timeout_s), core.PY, "-m", "pytest", "-q", "-p", "verif_rec", "-p", "no:cacheprovider", "--timeout=900",
               "-n", str(workers)] + test_files
        p = subprocess.run(cmd, cwd=scratch + "/repo", env=env, stdout=subprocess.PIPE, stderr=subprocess.STDOUT)
        tail = p.stdout.decode("utf8", "replace")[-600:]
        events = []
        for f in sorted(glob.glob(os.path.join(rec, "rec-*.ndjson"))):
            for line in open(f):
                line = line.strip()
                if line:
                    events.append(json.loads(line))
    finally:
        shutil.rmtree(scratch, ignore_errors=True)
    if not events:
        raise core.Machinery("the recorder produced no events (pytest said: %s)" % tail)
    if fn_prefixes:
        events = [e for e in events if any(e["fn"].startswith(p) for p in fn_prefixes)]
    for i, e in enumerate(events):
        e["id"] = i + 1
    # negative control: one event with a changed argument digest must be rejected
    neg = None
    for e in events:
        if e["before"]:
            neg = json.loads(json.dumps(e)); neg["id"] = -1; neg["after"][0] = (neg["after"][0] + 1) % 1000003
            break
    trace = ([neg] if neg else []) + events
    bad = ctx.validate_trace("Session_Trace", "Session_Trace.cfg", trace, tag="-suite")
    if neg:
        ctx.cov["traces_validated_against_impl"] -= 1
        ctx.negative_control("a recorded call with a changed argument digest must be rejected by Session_Trace", any(b[0] == -1 for b in bad))
    byid = {e["id"]: e for e in events}
    out = [(byid[i], clause) for (i, clause) in bad if i > 0]
    leaked = sorted({e["fn"] for e in events if e["threads_after"] != e["threads_before"]})
    if leaked:
        ctx.note("numba thread count not restored after: %s (not part of a listed property)" % ", ".join(leaked))
    ctx.lane("suite", test_files=test_files, events=len(events), functions=len({e["fn"] for e in events}),
             raising_calls=sum(1 for e in events if e["out"] == "raised"), rejected=len(out), pytest_tail=tail.strip().splitlines()[-1] if tail.strip() else "")
    return events, out


def suite_lane(ctx, test_files, prefixes, clauses=("tensor", "model"), workers=6):
    """Run the repository's tests under the recorder and turn rejected events of the given functions into violations."""
    events, bad = run_suite(ctx, test_files, fn_prefixes=prefixes, workers=workers)
    for e, clause in bad:
        if not any(c in clause for c in clauses):
            continue
        ctx.violation("suite", "%s called by %s: %s" % (e["fn"], e["test"], clause),
                      dict(mode="suite", fn=e["fn"], test=e["test"], paths=e["paths"], before=e["before"], after=e["after"],
                           hooks_after=e["mhooks_after"]), cls="%s/%s" % (e["fn"], clause))
    ctx.cov["evaluations"] += len(events)
    return events

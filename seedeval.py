#!/venv/bin/python
"""seedeval.py <Cxx> <k> [--tier quick|thorough] [--checks Cxx,Cyy]
Confirms a seeded change produced by an independent sub-agent (/tmp/wt/<Cxx>/_out/patch<k>.diff + demo<k>.py) in a scratch
worktree (demo passes on the pristine tree, fails with the change, the touched modules' tests still pass), then applies it to
/repo, runs the property's check, undoes it, and stores everything under /verif/seeded/<Cxx>-<k>/."""
import json
import os
import re
import shutil
import subprocess
import sys
import time

VERIF = os.path.dirname(os.path.abspath(__file__))
PY = "/venv/bin/python"
TESTS = {"ersatz": ["tests/test_ersatz.py"], "utils": ["tests/test_utils.py"], "predict": ["tests/test_predict.py"],
         "deep_lift_shap": ["tests/test_deep_lift_shap.py"], "ism": ["tests/test_ism.py"], "marginalize": ["tests/test_marginalize.py"],
         "ablate": ["tests/test_ablate.py"], "space": ["tests/test_space.py"], "product": ["tests/test_product.py"],
         "variant_effect": ["tests/test_variant_effect.py"], "design": [], "io": ["tests/test_io.py"], "match": ["tests/test_match.py"],
         "annotate": ["tests/test_annotate.py"], "kmers": ["tests/test_kmers.py"], "seqlet": ["tests/test_seqlet.py"],
         "fimo": ["tests/tools/test_fimo.py"], "tomtom": ["tests/tools/test_tomtom.py", "tests/test_annotate.py"]}
ALWAYS_FAIL = ("test_captum", "test_cmd_tomtom")


def sh(cmd, cwd=None, env=None, timeout=3000):
    p = subprocess.run(cmd, cwd=cwd, env=env, stdout=subprocess.PIPE, stderr=subprocess.STDOUT, timeout=timeout)
    return p.returncode, p.stdout.decode("utf8", "replace")


def main():
    pid, k = sys.argv[1], sys.argv[2]
    tier = sys.argv[sys.argv.index("--tier") + 1] if "--tier" in sys.argv else "quick"
    checks = sys.argv[sys.argv.index("--checks") + 1].split(",") if "--checks" in sys.argv else [pid]
    src = sys.argv[sys.argv.index("--src") + 1] if "--src" in sys.argv else "/tmp/wt/%s/_out" % pid
    sk = sys.argv[sys.argv.index("--srck") + 1] if "--srck" in sys.argv else k
    patch, demo = os.path.join(src, "patch%s.diff" % sk), os.path.join(src, "demo%s.py" % sk)
    dst = os.path.join(VERIF, "seeded", "%s-%s" % (pid, k))
    os.makedirs(dst, exist_ok=True)
    shutil.copy(patch, os.path.join(dst, "patch.diff")); shutil.copy(demo, os.path.join(dst, "demo.py"))
    meta = dict(property=pid, source="independent sub-agent given only the property text and a scratch worktree", ran=[])
    notes = os.path.join(src, "notes.md")
    if os.path.exists(notes):
        shutil.copy(notes, os.path.join(dst, "agent_notes.md"))
    sw = "/tmp/seedeval-%s-%s" % (pid, k)
    subprocess.run(["git", "-C", "/repo", "worktree", "remove", "--force", sw], stdout=subprocess.DEVNULL, stderr=subprocess.DEVNULL)
    rc, out = sh(["git", "-C", "/repo", "worktree", "add", "-q", sw, "HEAD"])
    env = dict(os.environ, PYTHONPATH=sw, NUMBA_CACHE_DIR="/tmp/seedeval-nb-%s-%s" % (pid, k), OMP_NUM_THREADS="2")
    try:
        rc0, o0 = sh([PY, demo], cwd=sw, env=env, timeout=1800)
        meta["ran"].append("demo on pristine worktree: exit %d" % rc0)
        rca, oa = sh(["git", "apply", patch], cwd=sw)
        meta["ran"].append("git apply patch: exit %d" % rca)
        rc1, o1 = sh([PY, demo], cwd=sw, env=env, timeout=1800)
        meta["ran"].append("demo with the change: exit %d (%s)" % (rc1, o1.strip().splitlines()[-1][:160] if o1.strip() else ""))
        files = re.findall(r"^\+\+\+ b/(\S+)", open(patch).read(), re.M)
        tests = sorted({t for f in files for m, ts in TESTS.items() if os.path.basename(f) == m + ".py" for t in ts})
        meta["files"] = files
        if tests:
            rct, ot = sh([PY, "-m", "pytest", "-q", "-p", "no:cacheprovider", "--timeout=900", "-n", "4"] + tests, cwd=sw, env=env, timeout=3000)
            failed = [l for l in ot.splitlines() if l.startswith("FAILED") and not any(a in l for a in ALWAYS_FAIL)]
            meta["ran"].append("pytest %s with the change: %s; unexpected failures: %d" % (" ".join(tests), ot.strip().splitlines()[-1][:120], len(failed)))
            meta["tests_pass_with_change"] = not failed
        else:
            meta["tests_pass_with_change"] = True
        meta["demo_ok"] = (rc0 == 0 and rca == 0 and rc1 != 0)
    finally:
        subprocess.run(["git", "-C", "/repo", "worktree", "remove", "--force", sw], stdout=subprocess.DEVNULL, stderr=subprocess.DEVNULL)
        shutil.rmtree(env["NUMBA_CACHE_DIR"], ignore_errors=True)
    meta["confirmed"] = bool(meta.get("demo_ok") and meta.get("tests_pass_with_change"))
    # ---- run the checks against /repo with the change applied
    meta["detected_by"] = {}
    st = subprocess.run(["git", "-C", "/repo", "status", "--porcelain", "--untracked-files=no"], stdout=subprocess.PIPE).stdout.decode().strip()
    if st:
        print("refusing: /repo has local modifications"); sys.exit(2)
    rca, oa = sh(["git", "-C", "/repo", "apply", patch])
    try:
        for c in checks:
            t0 = time.time()
            rc, out = sh([os.path.join(VERIF, "check"), c, "--tier", tier], cwd=VERIF, timeout=7200)
            lines = [l for l in out.splitlines() if l.strip().startswith("lane=")]
            meta["detected_by"][c] = dict(tier=tier, exit=rc, wall_s=round(time.time() - t0), first_lines=[l.strip()[:200] for l in lines[:4]],
                                          last=out.strip().splitlines()[-1][:200] if out.strip() else "")
            meta["ran"].append("./check %s --tier %s with the change applied to /repo: exit %d" % (c, tier, rc))
    finally:
        subprocess.run(["git", "-C", "/repo", "checkout", "--", "."])
        for f in os.listdir(os.path.join(VERIF, "replays")):
            if f != ".gitkeep":
                os.remove(os.path.join(VERIF, "replays", f))
    meta["detected"] = any(v["exit"] == 1 for v in meta["detected_by"].values())
    json.dump(meta, open(os.path.join(dst, "meta.json"), "w"), indent=1)
    print(json.dumps({k2: meta[k2] for k2 in ("property", "confirmed", "detected", "detected_by")}, indent=1)[:1500])


if __name__ == "__main__":
    main()

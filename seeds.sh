#!/bin/sh
# ./seeds.sh C01 C02 ... : run each quick check with seeds 1..3 (a check must never alarm on the unchanged tree)
for p in "$@"; do for s in 1 2 3; do VERIF_SEED=$s ./check $p 2>&1 | tail -1; done; done

#!/bin/sh
# thorough tier of every check, one after the other; with VP_RUN_REPO set (vp run --with-repo) against that snapshot of /repo.
cd "$(dirname "$0")"
[ -n "$VP_RUN_REPO" ] && export VERIF_REPO="$VP_RUN_REPO"
for p in ${@:-C01 C02 C03 C04 C05 C06 C07 C08 C09 C10 C11 C12 C13 C14 C15 C16 C17 C18 C19 C20}; do
  s=$(date +%s)
  timeout 7200 ./check $p --tier thorough > thorough_$p.log 2>&1
  echo "$p rc=$? wall=$(( $(date +%s) - s ))s $(tail -1 thorough_$p.log | cut -c1-200)"
done
